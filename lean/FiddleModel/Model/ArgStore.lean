/-
ArgStore layer: one Buildable in isolation (children are opaque values).

Mirrors, function by function, `fiddle/_src/signatures.py::SignatureInfo` and the argument
editing part of `fiddle/_src/config.py::Buildable` (canonical storage format, positional view,
index / slice / attribute edits, `ordered_arguments`), together with the history log and the
tag sets those edits maintain (`_arguments_set_value`, `_arguments_del_value`).

No imports outside core: this file is linked into the driver executable.
-/
import FiddleModel.Py.Slice

namespace Fiddle

/-! ## Signatures -/

inductive Kind | po | pk | vp | ko | vk
deriving DecidableEq, Repr, Inhabited

structure Param where
  name : String
  kind : Kind
  dflt : Bool
deriving DecidableEq, Repr, Inhabited

/-- `inspect.Signature.parameters` in order. -/
abbrev Sig := List Param

/-! ## Values, keys, the insertion-ordered dict -/

inductive Val
  | v (n : Nat)                               -- an opaque user value
  | d (name : String)                         -- the default object of parameter `name`
  | nov                                       -- `fdl.NO_VALUE`
  | tv (tags : List Nat) (inner : Option Nat) -- a `TaggedValue` (tags, optional value `v n`)
deriving DecidableEq, Repr, Inhabited

inductive Key
  | idx (i : Int)
  | name (s : String)
deriving DecidableEq, Repr, Inhabited

/-- Python `dict` as an association list: insertion ordered, overwrite keeps position. -/
abbrev Dict (α : Type) := List (Key × α)

namespace Dict
variable {α : Type}

def get? : Dict α → Key → Option α
  | [], _ => none
  | (k', v) :: r, k => if k' = k then some v else get? r k

def contains (d : Dict α) (k : Key) : Bool := (d.get? k).isSome

def set : Dict α → Key → α → Dict α
  | [], k, v => [(k, v)]
  | (k', v') :: r, k, v => if k' = k then (k, v) :: r else (k', v') :: set r k v

def del : Dict α → Key → Dict α
  | [], _ => []
  | (k', v') :: r, k => if k' = k then r else (k', v') :: del r k

def keys (d : Dict α) : List Key := d.map (·.1)

end Dict

inductive Err
  | attributeError | indexError | typeError | valueError | keyError | assertionError
deriving DecidableEq, Repr, Inhabited

/-! ## History and tags -/

inductive HVal
  | val (v : Val)
  | deleted
  | tags (ts : List Nat)
deriving DecidableEq, Repr, Inhabited

structure HEntry where
  seq : Nat
  key : Key
  new : HVal
deriving DecidableEq, Repr, Inhabited

/-- One Buildable: argument dict, tag sets (`defaultdict(set)`; sets are duplicate-free
    lists), history (flat log; per-key history is the filter), plus the two pieces of module
    state the edits read and write: the global counter and the tracking switch. -/
structure Cfg where
  args : Dict Val := []
  tags : Dict (List Nat) := []
  hist : List HEntry := []
  ctr  : Nat := 0
  tracking : Bool := true
deriving DecidableEq, Repr, Inhabited

def tagInsert (ts : List Nat) (t : Nat) : List Nat := if ts.contains t then ts else ts ++ [t]
def tagUnion (ts us : List Nat) : List Nat := us.foldl tagInsert ts

namespace Cfg

/-- `History.add_*`: append one entry and draw one sequence number, unless suspended. -/
def log (c : Cfg) (k : Key) (h : HVal) : Cfg :=
  if c.tracking then { c with hist := c.hist ++ [⟨c.ctr, k, h⟩], ctr := c.ctr + 1 } else c

/-- `Buildable._arguments_set_value`. -/
def setValue (c : Cfg) (k : Key) (v : Val) : Cfg :=
  match v with
  | .tv ts inner =>
    let c1 :=
      if ts.isEmpty then c
      else
        let newTags := tagUnion ((c.tags.get? k).getD []) ts
        ({ c with tags := c.tags.set k newTags }).log k (.tags newTags)
    match inner with
    | some n => ({ c1 with args := c1.args.set k (.v n) }).log k (.val (.v n))
    | none => c1
  | _ => ({ c with args := c.args.set k v }).log k (.val v)

/-- `Buildable._arguments_del_value` (caller guarantees presence; `KeyError` otherwise). -/
def delValue (c : Cfg) (k : Key) : Except Err Cfg :=
  if c.args.contains k then .ok (({ c with args := c.args.del k }).log k .deleted)
  else .error .keyError

end Cfg

/-! ## SignatureInfo -/

namespace Sig

def find? (s : Sig) (n : String) : Option Param := List.find? (fun p => p.name == n) s

/-- `SignatureInfo.var_positional_start`. -/
def vpStart (s : Sig) : Option Nat := List.findIdx? (fun p => p.kind == .vp) s

def hasVk (s : Sig) : Bool := s.any (fun p => p.kind == .vk)

/-- `SignatureInfo.valid_param_names`. -/
def validNames (s : Sig) : List String :=
  (s.filter (fun p => p.kind == .pk || p.kind == .ko)).map (·.name)

/-- `param.default` as a value. -/
def dfltVal (p : Param) : Val := .d p.name

/-- `SignatureInfo.get_default(argument, missing)`; `none` = `missing`. -/
def getDefault (s : Sig) (k : Key) : Option Val :=
  match k with
  | .name n =>
    match s.find? n with
    | some p => if p.dflt then some (dfltVal p) else none
    | none => none
  | .idx i =>
    -- an index addresses a positional parameter (positional-only or positional-or-keyword)
    if i < 0 then none
    else
      match s[i.toNat]? with
      | some p => if (p.kind == .po || p.kind == .pk) && p.dflt then some (dfltVal p) else none
      | none => none

/-- `fill_skipped()` inside `transform_to_args_kwargs`: a positional value may only follow
    skipped slots if each of them has a default, which is then passed explicitly. -/
def fillSkipped : List Val → List Param → Except Err (List Val)
  | pos, [] => .ok pos
  | pos, p :: r => if p.dflt then fillSkipped (pos ++ [dfltVal p]) r else .error .typeError

/-- The `while index in arguments` loop collecting `*args` (bounded by the dict size). -/
def collectVar (fuel : Nat) (i : Nat) (pos : List Val) (rest : Dict Val) (skipped : List Param) :
    Except Err (List Val × Dict Val) :=
  match fuel with
  | 0 => .ok (pos, rest)
  | fuel + 1 =>
    match rest.get? (.idx i) with
    | some v =>
      match fillSkipped pos skipped with
      | .ok pos' => collectVar fuel (i + 1) (pos' ++ [v]) (rest.del (.idx i)) []
      | .error e => .error e
    | none => .ok (pos, rest)

/-- The parameter loop of `transform_to_args_kwargs`. `i` is the index of the head of `ps`
    in the signature `s`. -/
def taLoop (s : Sig) (inclPk inclNoValue varPresent : Bool) :
    List Param → Nat → List Val → Dict Val → List Param →
    Except Err (List Val × Dict Val × List Param)
  | [], _, pos, rest, skipped => .ok (pos, rest, skipped)
  | p :: ps, i, pos, rest, skipped =>
    match p.kind with
    | .po =>
      match rest.get? (.idx i) with
      | some v =>
        match fillSkipped pos skipped with
        | .ok pos' => taLoop s inclPk inclNoValue varPresent ps (i + 1) (pos' ++ [v]) (rest.del (.idx i)) []
        | .error e => .error e
      | none =>
        if inclNoValue then
          taLoop s inclPk inclNoValue varPresent ps (i + 1)
            (pos ++ [(s.getDefault (.idx i)).getD .nov]) rest skipped
        else taLoop s inclPk inclNoValue varPresent ps (i + 1) pos rest (skipped ++ [p])
    | .pk =>
      if inclPk || varPresent then
        match rest.get? (.name p.name) with
        | some v =>
          match fillSkipped pos skipped with
          | .ok pos' =>
            taLoop s inclPk inclNoValue varPresent ps (i + 1) (pos' ++ [v]) (rest.del (.name p.name)) []
          | .error e => .error e
        | none =>
          if inclNoValue then
            taLoop s inclPk inclNoValue varPresent ps (i + 1)
              (pos ++ [(s.getDefault (.idx i)).getD .nov]) rest skipped
          else taLoop s inclPk inclNoValue varPresent ps (i + 1) pos rest (skipped ++ [p])
      else taLoop s inclPk inclNoValue varPresent ps (i + 1) pos rest skipped
    | _ => taLoop s inclPk inclNoValue varPresent ps (i + 1) pos rest skipped

/-- `SignatureInfo.transform_to_args_kwargs`. Returns the positional list and the remaining
    (keyword) dict; `TypeError` when a required positional slot would have to be skipped. -/
def toArgsKwargs (s : Sig) (args : Dict Val) (inclPk inclNoValue : Bool) :
    Except Err (List Val × Dict Val) :=
  let varPresent : Bool := match s.vpStart with
    | some i => args.contains (.idx i)
    | none => false
  match taLoop s inclPk inclNoValue varPresent s 0 [] args [] with
  | .error e => .error e
  | .ok (pos, rest, skipped) =>
    match s.vpStart with
    | none => .ok (pos, rest)
    | some start => collectVar args.length start pos rest skipped

/-- The view mode `transform_to_args_kwargs(arguments, True, True)` never raises (nothing is
    skipped); this is the list `cfg[...]` indexes into before defaults are shown. -/
def allPositional (s : Sig) (args : Dict Val) : List Val :=
  match s.toArgsKwargs args true true with
  | .ok (pos, _) => pos
  | .error _ => []

/-- `SignatureInfo.index_to_key(index, arguments)`; `IndexError` when a (still) negative index
    falls off the parameter list. -/
def indexToKey (s : Sig) (i : Int) (args : Dict Val) : Except Err Key :=
  let i' := if i < 0 then i + ((s.allPositional args).length : Int) else i
  -- `if index < len(params): param = params[index]` (a negative `index` wraps, as in Python)
  if i' < (s.length : Int) then
    if i' < -(s.length : Int) then .error .indexError
    else
      match Py.getIdx s i' with
      | some p => if p.kind == .pk then .ok (.name p.name) else .ok (.idx i')
      | none => .ok (.idx i')
  else .ok (.idx i')

/-- Number of parameters addressable by index when there is no `*args`. -/
def numPositional (s : Sig) : Nat := (s.filter (fun p => p.kind == .po || p.kind == .pk)).length

/-- `SignatureInfo.validate_param_name`: `true` = accepted. -/
def validName (s : Sig) (n : String) : Bool :=
  match s.find? n with
  | some p =>
    match p.kind with
    | .po => false
    | .vp => false
    | .vk => s.hasVk     -- treated as "no such parameter": accepted iff **kwargs exists (it does)
    | _ => true
  | none => s.hasVk

end Sig

/-! ## Positional view and edits (config.py) -/

namespace Cfg

/-- The list `__getitem__` indexes into: `transform_to_args_kwargs(…, True, True)` with
    `NO_VALUE` slots replaced by the default of the parameter *at that index*. -/
def posView (s : Sig) (c : Cfg) : List Val :=
  (s.allPositional c.args).zipIdx.map (fun (v, i) =>
    if v == .nov then
      match s[i]? with
      | some p => if p.dflt then Sig.dfltVal p else v
      | none => v
    else v)

/-- A slice key whose start/stop may be the `fdl.VARARGS` handle. -/
structure SliceK where
  start : Option Int := none
  startVar : Bool := false
  stop : Option Int := none
  stopVar : Bool := false
  step : Option Int := none
deriving DecidableEq, Repr, Inhabited

/-- `replace_varargs_handle` on a slice. -/
def resolveSlice (s : Sig) (k : SliceK) : Py.Slice :=
  let vs : Option Int := s.vpStart.map (fun n => (n : Int))
  { start := if k.startVar then vs else k.start,
    stop := if k.stopVar then vs else k.stop,
    step := k.step }

/-- `__getitem__` with an int key. -/
def getItem (s : Sig) (c : Cfg) (i : Int) : Except Err Val :=
  match Py.getIdx (c.posView s) i with
  | some v => .ok v
  | none => .error .indexError

/-- `__getitem__` with a slice key. -/
def getSlice (s : Sig) (c : Cfg) (k : SliceK) : Except Err (List Val) :=
  match Py.getSlice (c.posView s) (resolveSlice s k) with
  | some vs => .ok vs
  | none => .error .valueError

/-- `_set_item_by_index`. -/
def setItem (s : Sig) (c : Cfg) (i : Int) (v : Val) : Except Err Cfg :=
  let i' := if i < 0 then i + ((s.allPositional c.args).length : Int) else i
  if i' < 0 then .error .indexError else
  match s.indexToKey i' c.args with
  | .error e => .error e
  | .ok key =>
    let positionalNum : Nat :=
      match s.vpStart with
      | some n => n
      | none => s.numPositional
    match key with
    | .idx j =>
      if j ≥ (positionalNum : Int) && !c.args.contains key then .error .indexError
      else .ok (c.setValue key v)
    | .name _ => .ok (c.setValue key v)

/-- Element-wise assignment loop of `_set_item_by_slice` (non-variadic branch). -/
def setItems (s : Sig) : Cfg → List (Int × Val) → Except Err Cfg
  | c, [] => .ok c
  | c, (i, v) :: r =>
    match c.setItem s i v with
    | .ok c' => setItems s c' r
    | .error e => .error e

/-- One step of the compaction loops of `_set_item_by_slice`: what goes to `index`.
    `inl j` is `_Placeholder(j)` (read from the snapshot `old`), `inr v` a new value. -/
def placeValue (old : Dict Val) (c : Cfg) (index : Nat) (x : Sum Nat Val) (skipSame : Bool) :
    Except Err Cfg :=
  match x with
  | .inl j =>
    if skipSame && j = index then .ok c
    else
      match old.get? (.idx j) with
      | some v => .ok (c.setValue (.idx index) v)
      | none => .error .keyError
  | .inr v => .ok (c.setValue (.idx index) v)

/-- First compaction loop: `for index in range(var_positional_start, len(old))`. -/
def compact1 (old : Dict Val) (news : List (Sum Nat Val)) : Cfg → List Nat → Except Err Cfg
  | c, [] => .ok c
  | c, index :: r =>
    match news[index]? with
    | some x =>
      match placeValue old c index x true with
      | .ok c' => compact1 old news c' r
      | .error e => .error e
    | none =>
      match c.delValue (.idx index) with
      | .ok c' => compact1 old news c' r
      | .error e => .error e

/-- Second compaction loop: `for index in range(len_old, len_new)`. -/
def compact2 (old : Dict Val) (news : List (Sum Nat Val)) : Cfg → List Nat → Except Err Cfg
  | c, [] => .ok c
  | c, index :: r =>
    match news[index]? with
    | some x =>
      match placeValue old c index x false with
      | .ok c' => compact2 old news c' r
      | .error e => .error e
    | none => compact2 old news c r

/-- `_set_item_by_slice`. -/
def setSlice (s : Sig) (c : Cfg) (k : SliceK) (vals : List Val) : Except Err Cfg :=
  let sl := resolveSlice s k
  let n := (s.allPositional c.args).length
  match Py.sliceIndices sl n with
  | none => .error .valueError
  | some (a, b, st) =>
    let idxs := Py.rangeList a b st
    let spansFixed : Bool := match s.vpStart with
      | none => true
      | some vs =>
        match idxs.min? with
        | some m => m < (vs : Int)
        | none => a < (vs : Int)
    if spansFixed then
      if idxs.length ≠ vals.length then .error .valueError
      else setItems s c (idxs.zip vals)
    else
      let vs := (s.vpStart).getD 0
      let olds : List (Sum Nat Val) := (List.range n).map .inl
      match Py.setSlice olds sl (vals.map .inr) with
      | none => .error .valueError
      | some news =>
        match compact1 c.args news c (List.range' vs (n - vs)) with
        | .error e => .error e
        | .ok c1 => compact2 c.args news c1 (List.range' n (news.length - n))

/-- Deletion pass of `__delitem__`, from the largest index down: prefix indices unset their
    parameter, variadic ones are removed from the placeholder list. -/
def delPass (s : Sig) (vs : Nat) : Cfg → List Nat → List Int → Except Err (Cfg × List Nat)
  | c, news, [] => .ok (c, news)
  | c, news, index :: r =>
    if index < (vs : Int) then
      match s.indexToKey index c.args with
      | .error e => .error e
      | .ok k =>
        if c.args.contains k then
          match c.delValue k with
          | .ok c' => delPass s vs c' news r
          | .error e => .error e
        else delPass s vs c news r
    else
      if index ≥ (news.length : Int) then .error .indexError
      else delPass s vs c (news.eraseIdx index.toNat) r

/-- Compaction loop of `__delitem__`. -/
def delCompact (news : List Nat) : Cfg → List Nat → Except Err Cfg
  | c, [] => .ok c
  | c, index :: r =>
    match news[index]? with
    | some j =>
      if j ≠ index then
        match c.args.get? (.idx j) with
        | some v => delCompact news (c.setValue (.idx index) v) r
        | none => .error .keyError
      else delCompact news c r
    | none =>
      match c.delValue (.idx index) with
      | .ok c' => delCompact news c' r
      | .error e => .error e

/-- Insertion sort, descending (`sorted(indices, reverse=True)`). -/
def sortDesc (xs : List Int) : List Int :=
  xs.foldr (fun x acc =>
    let rec ins : List Int → List Int
      | [] => [x]
      | y :: ys => if x ≥ y then x :: y :: ys else y :: ins ys
    ins acc) []

/-- `__delitem__` after the key has been turned into an index list. -/
def delIndices (s : Sig) (c : Cfg) (indices : List Int) : Except Err Cfg :=
  let n := (s.allPositional c.args).length
  let vs := (s.vpStart).getD n
  match delPass s vs c (List.range n) (sortDesc indices) with
  | .error e => .error e
  | .ok (c1, news) => delCompact news c1 (List.range' vs (n - vs))

/-- `__delitem__` with an int key. -/
def delItem (s : Sig) (c : Cfg) (i : Int) : Except Err Cfg :=
  let n : Int := (s.allPositional c.args).length
  let i' := if i < 0 then i + n else i
  if i' < 0 || i' ≥ n then .error .indexError else c.delIndices s [i']

/-- `__delitem__` with a slice key. -/
def delSlice (s : Sig) (c : Cfg) (k : SliceK) : Except Err Cfg :=
  let n := (s.allPositional c.args).length
  match Py.sliceIndices (resolveSlice s k) n with
  | none => .error .valueError
  | some (a, b, st) => c.delIndices s (Py.rangeList a b st)

/-- `__getattr__`; `dcFactory` says whether the callable is a dataclass whose field `n` uses a
    `default_factory`. -/
def getAttr (s : Sig) (c : Cfg) (n : String) (dcFactory : Bool := false) : Except Err Val :=
  match c.args.get? (.name n) with
  | some v => .ok v       -- a stored string key is a keyword argument, whatever its name
  | none =>
    match s.find? n with
    | some p =>
      if p.kind == .po || p.kind == .vp then .error .attributeError
      else if dcFactory then .error .valueError
      else if p.dflt then .ok (Sig.dfltVal p) else .error .attributeError
    | none => if dcFactory then .error .valueError else .error .attributeError

/-- `__setattr__`. -/
def setAttr (s : Sig) (c : Cfg) (n : String) (v : Val) : Except Err Cfg :=
  if s.validName n then .ok (c.setValue (.name n) v) else .error .attributeError

/-- `__delattr__`. -/
def delAttr (_s : Sig) (c : Cfg) (n : String) : Except Err Cfg :=
  match c.delValue (.name n) with
  | .ok c' => .ok c'
  | .error _ => .error .attributeError

/-- Flags of `ordered_arguments`. -/
structure OAFlags where
  varKeyword : Bool := true
  defaults : Bool := false
  unset : Bool := false
  positional : Bool := true
  equalToDefault : Bool := true
deriving DecidableEq, Repr, Inhabited

/-- The `while index in buildable.__arguments__` loop of `ordered_arguments`. -/
def oaVar (args : Dict Val) : Nat → Nat → Dict Val → Dict Val
  | 0, _, res => res
  | fuel + 1, i, res =>
    match args.get? (.idx i) with
    | some v => oaVar args fuel (i + 1) (res.set (.idx i) v)
    | none => res

/-- Parameter loop of `ordered_arguments`. -/
def oaLoop (args : Dict Val) (f : OAFlags) : List Param → Nat → Dict Val → Dict Val
  | [], _, res => res
  | p :: ps, index, res =>
    match p.kind with
    | .vp => oaLoop args f ps (index + 1) (oaVar args args.length index res)
    | .vk => oaLoop args f ps (index + 1) res
    | _ =>
      -- positional-only arguments are stored by index, everything else by name
      let key : Key := if p.kind == .po then .idx index else .name p.name
      let value : Option Val :=
        if args.contains key then args.get? key
        else if p.dflt then (if f.defaults then some (Sig.dfltVal p) else none)
        else if f.unset then some .nov
        else none
      match value with
      | none => oaLoop args f ps (index + 1) res
      | some v =>
        -- `value != param.default`: defaults are unique sentinels; `param.empty` ≠ anything
        if f.equalToDefault || !(p.dflt && v == Sig.dfltVal p) then
          if p.kind == .po then oaLoop args f ps (index + 1) (res.set (.idx index) v)
          else oaLoop args f ps (index + 1) (res.set (.name p.name) v)
        else oaLoop args f ps (index + 1) res

/-- `include_var_keyword` loop: every stored *string* key that names no keyword-capable
    parameter (no parameter at all, or a positional-only / `*args` / `**kwargs` one) is a
    `**kwargs` entry. -/
def oaExtras (s : Sig) : Dict Val → Dict Val → Dict Val
  | [], res => res
  | (k, v) :: r, res =>
    match k with
    | .name n =>
      match s.find? n with
      | none => oaExtras s r (res.set k v)
      | some p =>
        if p.kind == .vk || p.kind == .po || p.kind == .vp then oaExtras s r (res.set k v)
        else oaExtras s r res
    | .idx _ => oaExtras s r res

/-- `fdl.ordered_arguments`. -/
def orderedArguments (s : Sig) (c : Cfg) (f : OAFlags := {}) : Except Err (Dict Val) :=
  if !f.equalToDefault && f.defaults then .error .valueError else
  let res := oaLoop c.args f s 0 []
  let res := if f.varKeyword then oaExtras s c.args res else res
  let res := if !f.positional then res.filter (fun kv => match kv.1 with | .name _ => true | _ => false) else res
  .ok res

/-- `__dir__` as a set: valid parameter names ∪ stored *string* keys. -/
def dir (s : Sig) (c : Cfg) : List String :=
  let names := s.validNames
  names ++ (c.args.keys.filterMap (fun k => match k with
    | .name n => if names.contains n then none else some n
    | .idx _ => none))

end Cfg

/-! ## Tag edits (tagging.py) and `materialize_defaults` on one node -/

namespace Cfg

/-- `tagging._validate_param_index`. -/
def validateIndex (s : Sig) (i : Int) : Except Err Unit :=
  if i < 0 then .error .indexError
  else match s.vpStart with
    | some _ => .ok ()
    | none =>
      match s[i.toNat]? with
      | none => .error .indexError
      | some p => if p.kind == .po || p.kind == .pk then .ok () else .error .indexError

/-- `tagging._validate_argument_name` followed by the `index_to_key` normalisation. -/
def tagKey (s : Sig) (c : Cfg) (k : Key) : Except Err Key :=
  match k with
  | .name n => if s.validName n then .ok k else .error .attributeError
  | .idx i =>
    match validateIndex s i with
    | .error e => .error e
    | .ok () => s.indexToKey i c.args

def tagsOf (c : Cfg) (k : Key) : List Nat := (c.tags.get? k).getD []

/-- `fdl.add_tag`. -/
def addTag (s : Sig) (c : Cfg) (k : Key) (t : Nat) : Except Err Cfg :=
  match tagKey s c k with
  | .error e => .error e
  | .ok key =>
    let ts := tagInsert (c.tagsOf key) t
    .ok (({ c with tags := c.tags.set key ts }).log key (.tags ts))

/-- `fdl.remove_tag`. -/
def removeTag (s : Sig) (c : Cfg) (k : Key) (t : Nat) : Except Err Cfg :=
  match tagKey s c k with
  | .error e => .error e
  | .ok key =>
    if !(c.tagsOf key).contains t then .error .valueError
    else
      let ts := (c.tagsOf key).filter (· != t)
      .ok (({ c with tags := c.tags.set key ts }).log key (.tags ts))

/-- `fdl.clear_tags`. -/
def clearTags (s : Sig) (c : Cfg) (k : Key) : Except Err Cfg :=
  match tagKey s c k with
  | .error e => .error e
  | .ok key => .ok (({ c with tags := c.tags.set key [] }).log key (.tags []))

def addTags (s : Sig) (k : Key) : Cfg → List Nat → Except Err Cfg
  | c, [] => .ok c
  | c, t :: r =>
    match c.addTag s k t with
    | .ok c' => addTags s k c' r
    | .error e => .error e

/-- `fdl.set_tags`: clear, add each, then one more UPDATE_TAGS entry. -/
def setTags (s : Sig) (c : Cfg) (k : Key) (ts : List Nat) : Except Err Cfg :=
  match c.clearTags s k with
  | .error e => .error e
  | .ok c1 =>
    match addTags s k c1 ts with
    | .error e => .error e
    | .ok c2 =>
      match tagKey s c2 k with
      | .error e => .error e
      | .ok key => .ok (c2.log key (.tags (c2.tagsOf key)))

/-- `delattr` loop of `update_callable(..., drop_invalid_args=True)`. -/
def dropArgs (s : Sig) : Cfg → List String → Except Err Cfg
  | c, [] => .ok c
  | c, n :: r =>
    match c.delAttr s n with
    | .ok c' => dropArgs s c' r
    | .error e => .error e

/-- `mutate_buildable.update_callable(buildable, new_callable, drop_invalid_args)`: the state
    part (the signature switch itself is the caller's). -/
def updateCallable (newSig : Sig) (c : Cfg) (drop : Bool) : Except Err Cfg :=
  if c.args.keys.any (fun k => match k with | .idx _ => true | .name _ => false) then
    .error .typeError            -- NotImplementedError: positional arguments
  else
    let invalid : List String :=
      if newSig.hasVk then []
      else c.args.keys.filterMap (fun k => match k with
        | .name n => if (newSig.find? n).isNone then some n else none
        | .idx _ => none)
    let r : Except Err Cfg :=
      if invalid.isEmpty then .ok c
      else if drop then dropArgs newSig c invalid
      else .error .typeError
    match r with
    | .error e => .error e
    | .ok c' => .ok (c'.log (.name "__fn_or_cls__") (.val (.v 0)))

/-- `materialize_defaults` on one Buildable: every parameter that has a default and no stored
    value is set to its default (positional-only ones by index, and only while every earlier
    required positional-only parameter has a value). `prefixSet` is that condition. -/
def materializeLoop (s : Sig) : List Param → Nat → Bool → Cfg → Except Err Cfg
  | [], _, _, c => .ok c
  | p :: ps, i, prefixSet, c =>
    let prefixSet := if p.kind == .po && !p.dflt then prefixSet && c.args.contains (.idx i) else prefixSet
    if !p.dflt then materializeLoop s ps (i + 1) prefixSet c
    else if p.kind == .po then
      if c.args.contains (.idx i) || !prefixSet then materializeLoop s ps (i + 1) prefixSet c
      else
        match c.setItem s i (Sig.dfltVal p) with
        | .ok c' => materializeLoop s ps (i + 1) prefixSet c'
        | .error e => .error e
    else if c.args.contains (.name p.name) then materializeLoop s ps (i + 1) prefixSet c
    else
      match c.setAttr s p.name (Sig.dfltVal p) with
      | .ok c' => materializeLoop s ps (i + 1) prefixSet c'
      | .error e => .error e

def materializeDefaults (s : Sig) (c : Cfg) : Except Err Cfg := materializeLoop s s 0 true c

/-- `fdl.assign(cfg, **kwargs)`: `setattr` one by one, in place; a rejected name ends it, the
    edits made before persist. -/
def assignAll (s : Sig) : Cfg → List (String × Val) → Cfg
  | c, [] => c
  | c, (n, v) :: r =>
    match c.setAttr s n v with
    | .ok c' => assignAll s c' r
    | .error _ => c

/-- Whether every name of an `assign` is accepted (`false`: the call raises). -/
def assignOk (s : Sig) : Cfg → List (String × Val) → Bool
  | _, [] => true
  | c, (n, v) :: r =>
    match c.setAttr s n v with
    | .ok c' => assignOk s c' r
    | .error _ => false

end Cfg

/-! ## The constructor: `signature.bind_partial` + canonicalisation -/

/-- `inspect.Signature.bind_partial(*args, **kwargs).arguments` followed by the re-keying of
    `SignatureInfo.signature_binding`. `none` = `TypeError`. -/
def signatureBinding (s : Sig) (args : List Val) (kwargs : List (String × Val)) :
    Option (Dict Val) :=
  -- phase 1: positional arguments against parameters in order
  let rec phase1 (ps : List Param) (as : List Val) (bound : List (Param × List Val)) :
      Option (List (Param × List Val) × List Param) :=
    match as, ps with
    | [], [] => some (bound, [])
    | [], p :: rest =>
      if p.kind == .vp then some (bound, rest)
      else if kwargs.any (fun kv => kv.1 == p.name) then
        if p.kind == .po then none else some (bound, p :: rest)
      else some (bound, p :: rest)
    | _ :: _, [] => none
    | a :: as', p :: rest =>
      match p.kind with
      | .vk => none
      | .ko => none
      | .vp => some (bound ++ [(p, a :: as')], rest)
      | _ =>
        if kwargs.any (fun kv => kv.1 == p.name) && p.kind != .po then none
        else phase1 rest as' (bound ++ [(p, [a])])
  match phase1 s args [] with
  | none => none
  | some (bound, restParams) =>
    -- phase 2: keyword arguments against the remaining parameters in signature order
    let step := fun (acc : Option (List (Param × List Val) × List (String × Val))) (p : Param) =>
      match acc with
      | none => none
      | some (bound, kws) =>
        match p.kind with
        | .vk => some (bound, kws)
        | .vp => some (bound, kws)
        | _ =>
          match kws.find? (fun kv => kv.1 == p.name) with
          | none => some (bound, kws)
          | some kv =>
            if p.kind == .po then none
            else some (bound ++ [(p, [kv.2])], kws.filter (fun kv' => kv'.1 != p.name))
    match restParams.foldl step (some (bound, kwargs)) with
    | none => none
    | some (bound, kws) =>
      if !kws.isEmpty && !Sig.hasVk s then none else
      -- `arguments` (ordered): bound entries, then the **kwargs dict if non-empty.
      -- Re-keying loop of signature_binding: po and vp entries are popped and re-added (moved
      -- to the end) under int keys; index = position in the bound-arguments order.
      let named : Dict Val := bound.filterMap (fun (p, vs) =>
        match p.kind, vs with
        | .pk, [v] => some (Key.name p.name, v)
        | .ko, [v] => some (Key.name p.name, v)
        | _, _ => none)
      let moved : Dict Val := (bound.zipIdx.map (fun ((p, vs), index) =>
        match p.kind with
        | .po => vs.zipIdx.map (fun (v, i) => (Key.idx ((index + i : Nat) : Int), v))
        | .vp => vs.zipIdx.map (fun (v, i) => (Key.idx ((index + i : Nat) : Int), v))
        | _ => [])).flatten
      let extras : Dict Val := kws.map (fun kv => (Key.name kv.1, kv.2))
      some (extras.foldl (fun d kv => d.set kv.1 kv.2) (named ++ moved))

/-- The last loop of `Buildable.__init__`: for every parameter whose annotation is
    `Annotated[..., tag, ...]` (`find_tags_from_annotations`: parameter order, non-empty tag
    lists only), the tags are ADDED to the tag set stored under the parameter's NAME and one
    UPDATE_TAGS history entry is logged - which is exactly what `_arguments_set_value` does for
    a value-less `TaggedValue`. -/
def annotate (c : Cfg) (ann : List (String × List Nat)) : Cfg :=
  ann.foldl (fun c nt => c.setValue (.name nt.1) (.tv nt.2 none)) c

/-- `Buildable.__init__`: bind, then `_arguments_set_value` for each entry in order
    (`__fn_or_cls__` history entry first), then the tags of `Annotated` parameters. -/
def construct (s : Sig) (args : List Val) (kwargs : List (String × Val)) (ctr : Nat := 0)
    (tracking : Bool := true) (ann : List (String × List Nat) := []) : Option Cfg :=
  match signatureBinding s args kwargs with
  | none => none
  | some d =>
    let c0 : Cfg := ({ ctr := ctr, tracking := tracking } : Cfg).log (.name "__fn_or_cls__") (.val (.v 0))
    some (annotate (d.foldl (fun c kv => c.setValue kv.1 kv.2) c0) ann)

end Fiddle
