/-
C19: the state fiddle keeps outside configurations, as a system of threads.

Per thread (`threading.local` in the code: `building._BuildGuardState`, `history._TrackingState`):
the nested-build guard and the history-tracking switch. Shared by all threads: the history
sequence counter (`itertools.count`, whose `next` is atomic under the GIL), modelled as one
atomic fetch-and-increment. A schedule is a list of (thread, operation) pairs: every
interleaving of the threads' programs at operation granularity.
-/
namespace Fiddle

inductive TOp
  | enterBuild            -- `fdl.build` called
  | exitBuild             -- leaving the outermost `fdl.build` of this thread
  | suspend               -- entering `suspend_tracking()`: saves the flag, clears it
  | resume                -- leaving it: restores the saved flag
  | log (k : String)      -- an edit of argument `k` (draws a sequence number if tracking)
  | readTracking
  | readInBuild
deriving DecidableEq, Repr, Inhabited

inductive TOut
  | ok
  | nestedBuildRejected
  | logged (k : String) (seq : Nat)
  | notLogged
  | flag (b : Bool)
deriving DecidableEq, Repr, Inhabited

structure TState where
  inBuild : Bool := false
  tracking : Bool := true
  saved : List Bool := []        -- stack of flags saved by nested `suspend_tracking`
deriving DecidableEq, Repr, Inhabited

structure Sys where
  ctr : Nat := 0
  threads : Nat → TState := fun _ => {}

def Sys.setThread (s : Sys) (t : Nat) (ts : TState) : Sys :=
  { s with threads := fun u => if u = t then ts else s.threads u }

/-- One operation of thread `t`. -/
def Sys.step (s : Sys) (t : Nat) (op : TOp) : Sys × TOut :=
  let ts := s.threads t
  match op with
  | .enterBuild =>
    if ts.inBuild then (s, .nestedBuildRejected)
    else (s.setThread t { ts with inBuild := true }, .ok)
  | .exitBuild => (s.setThread t { ts with inBuild := false }, .ok)
  | .suspend => (s.setThread t { ts with tracking := false, saved := ts.tracking :: ts.saved }, .ok)
  | .resume =>
    match ts.saved with
    | [] => (s, .ok)
    | b :: rest => (s.setThread t { ts with tracking := b, saved := rest }, .ok)
  | .log k =>
    if ts.tracking then ({ s with ctr := s.ctr + 1 }, .logged k s.ctr) else (s, .notLogged)
  | .readTracking => (s, .flag ts.tracking)
  | .readInBuild => (s, .flag ts.inBuild)

/-- Run a schedule; returns the final state and, in order, what each operation returned. -/
def Sys.run (s : Sys) : List (Nat × TOp) → Sys × List (Nat × TOut)
  | [] => (s, [])
  | (t, op) :: rest =>
    let (s1, o) := s.step t op
    let (s2, os) := s1.run rest
    (s2, (t, o) :: os)

/-- What thread `t` observed. -/
def outputsOf (t : Nat) (os : List (Nat × TOut)) : List TOut :=
  (os.filter (fun x => x.1 == t)).map (·.2)

/-- Sequence numbers are compared only by order, never by value. -/
def TOut.erase : TOut → TOut
  | .logged k _ => .logged k 0
  | o => o

def seqsOf (os : List TOut) : List Nat :=
  os.filterMap (fun o => match o with | .logged _ n => some n | _ => none)

/-- The program of thread `t` inside a schedule. -/
def programOf (t : Nat) (sched : List (Nat × TOp)) : List (Nat × TOp) :=
  sched.filter (fun x => x.1 == t)

end Fiddle
