/-
C18: the directive queue of `FiddleFlag` (`parse` appends, `value` pops in FIFO order and
applies, `unparse` clears), over an abstract configuration type.
-/
namespace Fiddle

inductive Directive
  | config (expr : String)        -- config: / config_file: / config_str:
  | set (assignment : String)
  | fiddler (expr : String)
deriving DecidableEq, Repr, Inhabited

/-- How directives act on a configuration (base config creation, `utils.set_value`, applying
    a fiddler) is a parameter of the queue model. -/
structure Semantics (C : Type) where
  base : String → C
  set : C → String → C
  fiddle : C → String → C

structure FlagSt (C : Type) where
  value : Option C := none
  first : Bool := false                 -- `first_command is not None`
  hasBase : Bool := false               -- `_initial_config_expression` set
  remaining : List Directive := []
  applied : List Directive := []        -- log of applied directives, in order

inductive FlagErr | firstMustBeConfig | secondBase
deriving DecidableEq, Repr

/-- `FiddleFlag.parse(arguments)`. -/
def FlagSt.parse {C} (st : FlagSt C) (args : List Directive) : FlagSt C :=
  { st with remaining := st.remaining ++ args }

/-- Apply one directive (the body of the `while` loop of the `value` property). -/
def FlagSt.apply1 {C} (sem : Semantics C) (st : FlagSt C) (d : Directive) : Except FlagErr (FlagSt C) :=
  let isBase := match d with | .config _ => true | _ => false
  if !st.first && !isBase then .error .firstMustBeConfig
  else
    let st := { st with first := true }
    match d with
    | .config e =>
      if st.hasBase then .error .secondBase
      else .ok { st with hasBase := true, value := some (sem.base e), applied := st.applied ++ [d] }
    | .set a =>
      .ok { st with value := st.value.map (fun c => sem.set c a), applied := st.applied ++ [d] }
    | .fiddler e =>
      .ok { st with value := st.value.map (fun c => sem.fiddle c e), applied := st.applied ++ [d] }

/-- The `value` property: pop and apply until the queue is empty (an error leaves the rest of
    the queue in place, the failing directive has been popped). -/
def FlagSt.drain {C} (sem : Semantics C) : FlagSt C → List Directive → Except FlagErr (FlagSt C)
  | st, [] => .ok { st with remaining := [] }
  | st, d :: r =>
    match ({ st with remaining := r }).apply1 sem d with
    | .error e => .error e
    | .ok st' => FlagSt.drain sem st' r

def FlagSt.getValue {C} (sem : Semantics C) (st : FlagSt C) : Except FlagErr (FlagSt C) :=
  FlagSt.drain sem st st.remaining

/-- What a command line means: the base config, then every override / fiddler in order. -/
def foldDirectives {C} (sem : Semantics C) : Option C → List Directive → Option C
  | v, [] => v
  | _, .config e :: r => foldDirectives sem (some (sem.base e)) r
  | v, .set a :: r => foldDirectives sem (v.map (fun c => sem.set c a)) r
  | v, .fiddler e :: r => foldDirectives sem (v.map (fun c => sem.fiddle c e)) r

end Fiddle
