/-
C09: the bytes codec used by `serialization` (latin-1), and symbol resolution during
deserialization (`import_symbol`: the policy is asked before anything is imported, and again
for the imported value).
-/
namespace Fiddle

/-! ## bytes <-> str -/

/-- `bytes.decode('latin-1')`. -/
def decodeLatin1 (bs : List UInt8) : List Char := bs.map (fun b => Char.ofNat b.toNat)

/-- `str.encode('latin-1')`; `none` = UnicodeEncodeError. -/
def encodeLatin1 : List Char → Option (List UInt8)
  | [] => some []
  | c :: r =>
    if c.toNat < 256 then (encodeLatin1 r).map (fun t => UInt8.ofNat c.toNat :: t) else none

/-! ## documents and symbol resolution -/

/-- A JSON document as far as symbol references are concerned. -/
inductive Doc
  | leaf (tok : String)
  | pyref (module name : String)
  | node (children : List Doc)
deriving Repr, Inhabited

structure Policy where
  allowsImport : String → String → Bool
  allowsValue : String → String → Bool        -- abstract: the imported value is named by its symbol

inductive LoadErr | policy (module name : String)
deriving DecidableEq, Repr

mutual
/-- `_deserialize` restricted to symbol resolution: returns the symbols that were imported
    (in order) or the first policy error; nothing is imported for a denied reference. -/
def Doc.resolve (p : Policy) : Doc → List (String × String) → Except LoadErr (List (String × String))
  | .leaf _, acc => .ok acc
  | .pyref m n, acc =>
    if p.allowsImport m n then
      -- import happens here
      if p.allowsValue m n then .ok (acc ++ [(m, n)]) else .error (.policy m n)
    else .error (.policy m n)
  | .node ch, acc => Doc.resolveList p ch acc
def Doc.resolveList (p : Policy) : List Doc → List (String × String) → Except LoadErr (List (String × String))
  | [], acc => .ok acc
  | d :: r, acc =>
    match d.resolve p acc with
    | .error e => .error e
    | .ok acc' => Doc.resolveList p r acc'
end

end Fiddle
