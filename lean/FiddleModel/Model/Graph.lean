/-
Graph layer: Python object graphs as topologically ordered heaps (object id = index in the
list, children refer to smaller indices), `daglish` traversals over them (follow_path, iterate
in its three modes, collect_paths_by_id, State.get_all_paths) and `fdl.build` as a memoized
post-order traversal with an invocation log.

Mirrors `fiddle/_src/daglish.py` (State.call / MemoizedTraversal.apply / BasicTraversal /
iterate / collect_paths_by_id / follow_path) and `fiddle/_src/building.py::build`.
-/
import FiddleModel.Model.Call

namespace Fiddle

inductive GVal
  | atom (tok : String)      -- immutable non-container leaf: never memoized
  | ref (i : Nat)            -- a memoizable object (identity = index in the heap)
deriving DecidableEq, Repr, Inhabited

inductive PElem
  | index (i : Int)
  | key (k : String)
  | attr (n : String)
deriving DecidableEq, Repr, Inhabited

abbrev Path := List PElem

inductive NKind | list | tuple | dict | ddict | ntuple | cfg | custom | opaque
deriving DecidableEq, Repr, Inhabited

structure GObj where
  kind : NKind
  ty : String := ""           -- type name (ntuple/custom), opaque token, or callable name (cfg)
  bk : String := ""           -- Buildable subclass name (cfg)
  sig : Sig := []
  children : List (PElem × GVal) := []
  defaults : List (PElem × GVal) := []   -- default objects of the parameters (cfg)
  tags : List (Key × List Nat) := []
deriving Repr, Inhabited

abbrev Heap := List GObj

/-- Children only refer to earlier objects (true of every encoding of an acyclic graph). -/
def Heap.WellFormed (h : Heap) : Prop :=
  ∀ (i : Nat) (o : GObj), h[i]? = some o →
    ∀ (pv : PElem × GVal), pv ∈ o.children → ∀ j : Nat, pv.2 = GVal.ref j → j < i

def Heap.wellFormedB (h : Heap) : Bool :=
  h.zipIdx.all (fun (oi : GObj × Nat) => oi.1.children.all (fun (pv : PElem × GVal) =>
    match pv.2 with
    | GVal.ref j => decide (j < oi.2)
    | GVal.atom _ => true))

/-- Path elements of the children of one object are pairwise distinct (dict keys, list
    indices, argument names: true of every flatten in the registry). -/
def Heap.PathsDistinct (h : Heap) : Prop :=
  ∀ (i : Nat) (o : GObj), h[i]? = some o → (o.children.map (·.1)).Nodup

def Heap.pathsDistinctB (h : Heap) : Bool :=
  h.all (fun o => decide ((o.children.map (·.1)).Nodup))

/-! ## follow_path -/

def childAt (o : GObj) (pe : PElem) : Option GVal :=
  (o.children.find? (fun pv => pv.1 == pe)).map (·.2)

/-- `daglish.follow_path(root, path)`; `none` = ValueError. -/
def followPath (h : Heap) : GVal → Path → Option GVal
  | v, [] => some v
  | .atom _, _ :: _ => none
  | .ref i, pe :: rest =>
    match h[i]? with
    | none => none
    | some o =>
      match childAt o pe with
      | none => none
      | some c => followPath h c rest

/-! ## internable / memoizable -/

/-- `daglish.is_internable`: atoms, and plain tuples of internables. -/
def isInternable (h : Heap) : Nat → GVal → Bool
  | _, .atom _ => true
  | 0, .ref _ => false
  | fuel + 1, .ref i =>
    match h[i]? with
    | some o => o.kind == .tuple && o.children.all (fun pv => isInternable h fuel pv.2)
    | none => false

/-! ## iterate -/

structure IterSt where
  memo : List Nat := []                 -- ids already visited (memoized traversals)
  out : List (GVal × Path) := []        -- yielded (value, path) pairs, in order
deriving Repr, Inhabited

inductive IterMode | basic | memo | memoNoInternables
deriving DecidableEq, Repr, Inhabited

/-- `daglish.iterate`: pre-order; a memoized traversal yields a memoizable object only at its
    first visit. Fuel bounds the depth (|heap| + 1 suffices for a well-formed heap). -/
def iterGo (h : Heap) (mode : IterMode) : Nat → GVal → Path → IterSt → IterSt
  | 0, _, _, st => st
  | fuel + 1, v, path, st =>
    let visit (st : IterSt) : IterSt :=
      let st := { st with out := st.out ++ [(v, path)] }
      match v with
      | .atom _ => st
      | .ref i =>
        match h[i]? with
        | none => st
        | some o =>
          o.children.foldl (fun st pv => iterGo h mode fuel pv.2 (path ++ [pv.1]) st) st
    match mode, v with
    | .basic, _ => visit st
    | .memo, .atom _ => visit st
    | .memoNoInternables, .atom _ => visit st
    | .memo, .ref i =>
      if st.memo.contains i then st else visit { st with memo := i :: st.memo }
    | .memoNoInternables, .ref i =>
      if isInternable h (h.length + 1) v then visit st
      else if st.memo.contains i then st else visit { st with memo := i :: st.memo }

def iterate (h : Heap) (mode : IterMode) (root : GVal) : List (GVal × Path) :=
  (iterGo h mode (h.length + 1) root [] {}).out

/-- `daglish.collect_paths_by_id(structure, memoizable_only=True)`: every path of every
    memoizable object, in un-memoized DFS order. -/
def collectPathsById (h : Heap) (root : GVal) : List (Nat × Path) :=
  (iterate h .basic root).filterMap (fun vp => match vp.1 with
    | .ref i => some (i, vp.2)
    | .atom _ => none)

def allPathsTo (h : Heap) (root : GVal) (i : Nat) : List Path :=
  (collectPathsById h root).filterMap (fun ip => if ip.1 = i then some ip.2 else none)

/-- `State.get_all_paths()` for the state reached at `path` (value `v`, ancestor values
    `ancestors` innermost first, each with the length of its path): paths of the nearest
    memoizable ancestor-or-self, extended by the non-memoizable suffix. -/
def getAllPaths (h : Heap) (root : GVal) (v : GVal) (path : Path)
    (ancestors : List (GVal × Nat)) : List Path :=
  let chain := (v, path.length) :: ancestors
  match chain.find? (fun a => match a.1 with | .ref _ => true | .atom _ => false) with
  | some (.ref i, n) => (allPathsTo h root i).map (fun p => p ++ path.drop n)
  | _ => [path]

/-! ## build -/

/-- Built values: atoms, new objects of the result heap, original (non-traversable) objects
    passed through, and default sentinels supplied by Python's call binding. -/
inductive BVal
  | atom (tok : String)
  | built (j : Nat)
  | orig (i : Nat)
  | dflt (name : String)
deriving DecidableEq, Repr, Inhabited

inductive BObj
  | container (kind : NKind) (ty : String) (children : List (PElem × BVal))
  | call (fn : String) (slots : List (String × BVal)) (var : List BVal) (kw : List (String × BVal))
deriving DecidableEq, Repr, Inhabited

structure BuildSt where
  memo : List (Nat × BVal) := []
  onStack : List Nat := []
  log : List Nat := []          -- ids of Buildables in invocation order
  out : List BObj := []         -- result heap (id = index)
deriving Repr, Inhabited

inductive BErr
  | cycle
  | callFailed (i : Nat) (path : Path) (log : List Nat)  -- the callable of node `i` (or its binding) raised; `log` = invocations completed before
  | malformed
  | fuel
deriving DecidableEq, Repr, Inhabited

def memoGet (m : List (Nat × BVal)) (i : Nat) : Option BVal :=
  (m.find? (fun kv => kv.1 == i)).map (·.2)

def keyOfPElem : PElem → Option Key
  | .index i => some (.idx i)
  | .attr n => some (.name n)
  | .key _ => none

/-- The binding a Config node's callable receives, children already built: run the ArgStore
    build path on placeholder values `v k` (k = child position) and substitute back. -/
def bindBuilt (o : GObj) (vals : List BVal) : Except Err (List (String × BVal) × List BVal × List (String × BVal)) :=
  let keys := o.children.map (fun pv => keyOfPElem pv.1)
  if keys.any Option.isNone then .error .typeError else
  let d : Dict Val := (keys.filterMap id).zipIdx.map (fun (k, n) => (k, Val.v n))
  match s_toArgs o.sig d with
  | .error e => .error e
  | .ok b =>
    let back : Val → BVal := fun v => match v with
      | .v n => vals.getD n (.atom "?")
      | .d name => .dflt name
      | _ => .atom "?"
    .ok (b.slots.map (fun (n, v) => (n, back v)), b.var.map back, b.kw.map (fun (n, v) => (n, back v)))
where
  s_toArgs (s : Sig) (d : Dict Val) : Except Err Binding :=
    match s.toArgsKwargs d false false with
    | .error e => .error e
    | .ok (pos, kw) =>
      match kwList kw with
      | .error e => .error e
      | .ok kws => pyCall s pos kws

mutual
/-- `MemoizedTraversal.apply` specialised to `build`'s `_build`. `fails` lists the ids of
    Buildables whose callable raises. -/
def buildVal (h : Heap) (fails : List Nat) : Nat → GVal → Path → BuildSt → Except BErr (BVal × BuildSt)
  | 0, _, _, _ => .error .fuel
  | _ + 1, .atom t, _, st => .ok (.atom t, st)
  | fuel + 1, .ref i, path, st =>
    match memoGet st.memo i with
    | some r => .ok (r, st)
    | none =>
      if st.onStack.contains i then .error .cycle else
      match h[i]? with
      | none => .error .malformed
      | some o =>
        if o.kind == .opaque then
          .ok (.orig i, { st with memo := (i, .orig i) :: st.memo })
        else
          let st1 := { st with onStack := i :: st.onStack }
          match buildChildren h fails fuel o.children path st1 with
          | .error e => .error e
          | .ok (vals, st2) =>
            let st2 := { st2 with onStack := st2.onStack.erase i }
            if o.kind == .cfg then
              if fails.contains i then .error (.callFailed i path st2.log) else
              match bindBuilt o vals with
              | .error _ => .error (.callFailed i path st2.log)
              | .ok (slots, var, kw) =>
                let j := st2.out.length
                let r := BVal.built j
                .ok (r, { st2 with out := st2.out ++ [.call o.ty slots var kw],
                                   log := st2.log ++ [i], memo := (i, r) :: st2.memo })
            else
              let j := st2.out.length
              let r := BVal.built j
              let ch := (o.children.map (·.1)).zip vals
              .ok (r, { st2 with out := st2.out ++ [.container o.kind o.ty ch],
                                 memo := (i, r) :: st2.memo })

def buildChildren (h : Heap) (fails : List Nat) : Nat → List (PElem × GVal) → Path → BuildSt →
    Except BErr (List BVal × BuildSt)
  | _, [], _, st => .ok ([], st)
  | fuel, (pe, v) :: rest, path, st =>
    match buildVal h fails fuel v (path ++ [pe]) st with
    | .error e => .error e
    | .ok (r, st1) =>
      match buildChildren h fails fuel rest path st1 with
      | .error e => .error e
      | .ok (rs, st2) => .ok (r :: rs, st2)
end

def build (h : Heap) (fails : List Nat) (root : GVal) : Except BErr (BVal × BuildSt) :=
  buildVal h fails (h.length + 1) root [] {}

end Fiddle
