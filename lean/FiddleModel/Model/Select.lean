/-
`fiddle/_src/selectors.py` over heaps: `select(cfg, F)` (NodeSelection: iteration, `.set`,
`.replace`) and `select(cfg, tag=T)` (TagSelection: iteration, `.replace` = `set_tagged`),
plus `tagging.list_tags`.

Selections walk the configuration with a memoized traversal and act on the Buildables it
yields; the order in which nodes are yielded is not part of C14/C15, so the model uses the
(pre-order) memoized `iterate` and results are compared as sets / per-object.
-/
import FiddleModel.Model.Graph

namespace Fiddle

/-- ids of the memoizable objects yielded by a traversal -/
def refIds (out : List (GVal × Path)) : List Nat :=
  out.filterMap (fun vp => match vp.1 with | .ref i => some i | .atom _ => none)

/-- every memoizable object reachable from `root`, once -/
def reachableIds (h : Heap) (root : GVal) : List Nat := refIds (iterate h .memo root)

def isSubOf (tbl : List (String × List String)) (c base : String) : Bool :=
  c == base || (match tbl.find? (fun e => e.1 == c) with
    | some e => e.2.contains base
    | none => false)

/-- `NodeSelection._matches`. `classes` lists, for every callable that is a class, its proper
    bases; `bkBases` the same for Buildable subclasses. -/
structure Matcher where
  target : Option String            -- `fn_or_cls` (None = every Buildable of the type)
  matchSub : Bool
  btype : String
  classes : List (String × List String)
  bkBases : List (String × List String)
deriving Repr, Inhabited

def Matcher.isClass (m : Matcher) (c : String) : Bool := m.classes.any (fun e => e.1 == c)

def Matcher.matches (m : Matcher) (o : GObj) : Bool :=
  o.kind == .cfg && isSubOf m.bkBases o.bk m.btype &&
  (match m.target with
   | none => true
   | some t => o.ty == t ||
      (m.matchSub && m.isClass t && m.isClass o.ty && isSubOf m.classes o.ty t))

/-- `list(select(root, F))` as a set of object ids, for an arbitrary node predicate. -/
def selectIds (h : Heap) (root : GVal) (p : GObj → Bool) : List Nat :=
  (reachableIds h root).filter (fun i => match h[i]? with
    | some o => o.kind == .cfg && p o
    | none => false)

/-- insert-or-overwrite one child -/
def upsert (ch : List (PElem × GVal)) (pe : PElem) (v : GVal) : List (PElem × GVal) :=
  if ch.any (fun c => c.1 == pe) then ch.map (fun c => if c.1 == pe then (pe, v) else c)
  else ch ++ [(pe, v)]

def upsertAll (ch : List (PElem × GVal)) (kvs : List (PElem × GVal)) : List (PElem × GVal) :=
  kvs.foldl (fun ch kv => upsert ch kv.1 kv.2) ch

/-- `selection.set(**kw)`: assign on exactly the selected nodes. -/
def Heap.setOn (h : Heap) (ids : List Nat) (kvs : List (PElem × GVal)) : Heap :=
  h.zipIdx.map (fun (oi : GObj × Nat) =>
    if ids.contains oi.2 then { oi.1 with children := upsertAll oi.1.children kvs } else oi.1)

/-- `selection.replace(v)`: every reference to a selected node becomes `v`. -/
def replaceChild (ids : List Nat) (v : GVal) (c : PElem × GVal) : PElem × GVal :=
  match c.2 with
  | .ref j => if ids.contains j then (c.1, v) else c
  | .atom _ => c

def Heap.replaceRefs (h : Heap) (ids : List Nat) (v : GVal) : Heap :=
  h.map (fun o => { o with children := o.children.map (replaceChild ids v) })

def replaceRoot (ids : List Nat) (v root : GVal) : GVal :=
  match root with
  | .ref j => if ids.contains j then v else root
  | .atom _ => root

/-! ## Tag selections -/

def pelemOfKey : Key → PElem
  | .idx i => .index i
  | .name n => .attr n

/-- the argument keys of `o` whose tag set contains `T` or a subclass of `T` -/
def taggedKeys (sub : Nat → Nat → Bool) (T : Nat) (o : GObj) : List Key :=
  (o.tags.filter (fun kt => kt.2.any (fun t => sub t T))).map (·.1)

/-- `set_tagged(root, tag=T, value=v)` / `select(root, tag=T).replace(v, deepcopy=False)`. -/
def Heap.setTagged (h : Heap) (root : GVal) (sub : Nat → Nat → Bool) (T : Nat) (v : GVal) : Heap :=
  let ids := reachableIds h root
  h.zipIdx.map (fun (oi : GObj × Nat) =>
    if ids.contains oi.2 && oi.1.kind == .cfg then
      { oi.1 with children :=
          upsertAll oi.1.children ((taggedKeys sub T oi.1).map (fun k => (pelemOfKey k, v))) }
    else oi.1)

/-- `tagging.list_tags(root)` (without superclass expansion): the union of the tag sets of
    every reachable Buildable, duplicates removed. -/
def listTags (h : Heap) (root : GVal) : List Nat :=
  ((reachableIds h root).flatMap (fun i => match h[i]? with
    | some o => if o.kind == .cfg then o.tags.flatMap (·.2) else []
    | none => [])).eraseDups

/-- Iterating a tag selection: for each selected argument its value, else its default, else
    NO_VALUE (`none`). Per object, in tag-dict order. -/
def tagValues (sub : Nat → Nat → Bool) (T : Nat) (o : GObj) : List (Key × Option GVal) :=
  (taggedKeys sub T o).map (fun k =>
    let pe := pelemOfKey k
    (k, match (o.children.find? (fun c => c.1 == pe)).map (·.2) with
        | some v => some v
        | none => (o.defaults.find? (fun c => c.1 == pe)).map (·.2)))

end Fiddle
