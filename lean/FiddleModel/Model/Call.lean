/-
Py layer: Python's function-call argument binding, and the build path of one Buildable
(`ordered_arguments` → `transform_to_args_kwargs` → `fn(*args, **kwargs)`), together with the
right-hand side of property C01 (`direct`).
-/
import FiddleModel.Model.ArgStore

namespace Fiddle

/-- What a recording callable observes: the value received by every named parameter
    (defaults applied), the `*args` tuple and the `**kwargs` dict (in call order). -/
structure Binding where
  slots : List (String × Val)
  var : List Val
  kw : List (String × Val)
deriving DecidableEq, Repr, Inhabited

namespace Sig

def positionalParams (s : Sig) : List Param := s.filter (fun p => p.kind == .po || p.kind == .pk)
def namedParams (s : Sig) : List Param :=
  s.filter (fun p => p.kind == .po || p.kind == .pk || p.kind == .ko)
def hasVp (s : Sig) : Bool := s.any (fun p => p.kind == .vp)
/-- Parameters that accept a keyword argument. -/
def isKwParam (s : Sig) (n : String) : Bool :=
  s.any (fun p => p.name == n && (p.kind == .pk || p.kind == .ko))

end Sig

/-- CPython's binding of `fn(*args, **kwargs)` against `fn`'s signature. -/
def pyCall (s : Sig) (args : List Val) (kwargs : List (String × Val)) : Except Err Binding :=
  let pps := s.positionalParams
  -- 1. positional arguments fill positional parameters in order; the excess goes to *args
  let fromPos : List (String × Val) := (pps.zip args).map (fun (p, v) => (p.name, v))
  let excess := args.drop pps.length
  if !excess.isEmpty && !s.hasVp then .error .typeError else
  -- 2. keyword arguments
  let rec kwLoop : List (String × Val) → List (String × Val) → List (String × Val) →
      Except Err (List (String × Val) × List (String × Val))
    | [], named, extra => .ok (named, extra)
    | (n, v) :: r, named, extra =>
      if s.isKwParam n then
        if named.any (fun kv => kv.1 == n) then .error .typeError
        else kwLoop r (named ++ [(n, v)]) extra
      else if s.hasVk then kwLoop r named (extra ++ [(n, v)])
      else .error .typeError
  match kwLoop kwargs fromPos [] with
  | .error e => .error e
  | .ok (named, extra) =>
    -- 3. defaults for what is still unbound; a required one is an error
    let rec fill : List Param → List (String × Val) → Except Err (List (String × Val))
      | [], acc => .ok acc
      | p :: r, acc =>
        match named.find? (fun kv => kv.1 == p.name) with
        | some kv => fill r (acc ++ [(p.name, kv.2)])
        | none => if p.dflt then fill r (acc ++ [(p.name, Sig.dfltVal p)]) else .error .typeError
    match fill s.namedParams [] with
    | .error e => .error e
    | .ok slots => .ok { slots := slots, var := excess, kw := extra }

/-- Keyword dict → list of `(name, value)`; int keys cannot be passed as keywords (`TypeError`
    from `fn(**kwargs)`). -/
def kwList : Dict Val → Except Err (List (String × Val))
  | [] => .ok []
  | (.name n, v) :: r =>
    match kwList r with
    | .ok l => .ok ((n, v) :: l)
    | .error e => .error e
  | (.idx _, _) :: _ => .error .typeError

/-- `fdl.build` of a single Config whose children are already built: what the callable
    receives. -/
def buildCall (s : Sig) (c : Cfg) : Except Err Binding :=
  match c.orderedArguments s {} with
  | .error e => .error e
  | .ok oa =>
    match s.toArgsKwargs oa false false with
    | .error e => .error e
    | .ok (pos, kw) =>
      match kwList kw with
      | .error e => .error e
      | .ok kws => pyCall s pos kws

/-- Collect `d[idx i], d[idx (i+1)], …` while present. -/
def varFrom (d : Dict Val) : Nat → Nat → List Val
  | 0, _ => []
  | fuel + 1, i =>
    match d.get? (.idx i) with
    | some v => v :: varFrom d fuel (i + 1)
    | none => []

/-- The right-hand side of C01: every parameter receives *its own* configured value, an unset
    one its default, a required unset one is an error; `*args`/`**kwargs` receive exactly the
    variadic entries. `d` is the dict of configured arguments in canonical storage format. -/
def direct (s : Sig) (d : Dict Val) : Except Err Binding :=
  let rec slotsOf : List Param → Nat → List (String × Val) → Except Err (List (String × Val))
    | [], _, acc => .ok acc
    | p :: r, i, acc =>
      match p.kind with
      | .po =>
        match d.get? (.idx i) with
        | some v => slotsOf r (i + 1) (acc ++ [(p.name, v)])
        | none => if p.dflt then slotsOf r (i + 1) (acc ++ [(p.name, Sig.dfltVal p)]) else .error .typeError
      | .pk =>
        match d.get? (.name p.name) with
        | some v => slotsOf r (i + 1) (acc ++ [(p.name, v)])
        | none => if p.dflt then slotsOf r (i + 1) (acc ++ [(p.name, Sig.dfltVal p)]) else .error .typeError
      | .ko =>
        match d.get? (.name p.name) with
        | some v => slotsOf r (i + 1) (acc ++ [(p.name, v)])
        | none => if p.dflt then slotsOf r (i + 1) (acc ++ [(p.name, Sig.dfltVal p)]) else .error .typeError
      | _ => slotsOf r (i + 1) acc
  match slotsOf s 0 [] with
  | .error e => .error e
  | .ok slots =>
    let var := match s.vpStart with
      | some st => varFrom d d.length st
      | none => []
    let kw := d.filterMap (fun kv => match kv.1 with
      | .name n => if s.isKwParam n then none else some (n, kv.2)
      | .idx _ => none)
    .ok { slots := slots, var := var, kw := kw }

end Fiddle
