/-
The nested-build guard (`building._in_build`) as a small state machine, and the decoration of
an escaping exception (`reraised_exception.try_with_lazy_message` / `decorate_exception` /
`make_exception_class`) over an abstract class hierarchy.
-/
namespace Fiddle

/-! ## Build guard -/

/-- What one `fdl.build` call does, seen from the guard: `nested` rejected attempts to start
    another build from inside its callables, then it succeeds or a callable raises. -/
structure BuildRun where
  nested : Nat
  fails : Bool
deriving DecidableEq, Repr, Inhabited

inductive GuardObs
  | rejected            -- `ValueError: forbidden to call fdl.build inside another fdl.build`
  | built
  | failed
deriving DecidableEq, Repr, Inhabited

/-- `with _in_build(): body`: check, set, run the body, reset in `finally`. Returns the guard
    afterwards and what was observed (the nested attempts first, then the outcome). -/
def inBuild (guard : Bool) (run : BuildRun) : Bool × List GuardObs :=
  if guard then
    -- raised before the `try`: the flag is left as it was
    (guard, [.rejected])
  else
    -- guard := true; every nested attempt sees `true` and is rejected without touching it
    let nestedObs := List.replicate run.nested GuardObs.rejected
    -- finally: guard := false, whatever the outcome
    (false, nestedObs ++ [if run.fails then .failed else .built])

/-- A sequence of top-level builds in one thread. -/
def runBuilds : Bool → List BuildRun → Bool × List (List GuardObs)
  | g, [] => (g, [])
  | g, r :: rs =>
    let (g1, o) := inBuild g r
    let (g2, os) := runBuilds g1 rs
    (g2, o :: os)

/-! ## Exception decoration -/

structure Exc where
  cls : Nat            -- class id
  msg : String
deriving DecidableEq, Repr, Inhabited

/-- Class hierarchy: `sub c` is the proxy subclass generated for `c`. -/
inductive Cls
  | base (c : Nat)
  | proxyOf (c : Nat)
deriving DecidableEq, Repr, Inhabited

def Cls.isSubclassOf : Cls → Nat → Bool
  | .base c, d => c == d
  | .proxyOf c, d => c == d

structure Escaping where
  cls : Cls
  msg : String
  decorated : Bool
deriving DecidableEq, Repr, Inhabited

/-- Where decoration can go wrong, all of which fall back to the original exception. -/
structure Hazards where
  isException : Bool := true       -- `except Exception` does not see BaseException subclasses
  subclassable : Bool := true      -- `make_exception_class` may raise
  messageOk : Bool := true         -- `lazy_message()` may raise
deriving DecidableEq, Repr, Inhabited

/-- `try_with_lazy_message` + `decorate_exception`. -/
def decorate (e : Exc) (hz : Hazards) (ctx : String) : Escaping :=
  if !hz.isException then { cls := .base e.cls, msg := e.msg, decorated := false }
  else if !hz.messageOk then { cls := .base e.cls, msg := e.msg, decorated := false }
  else if !hz.subclassable then { cls := .base e.cls, msg := e.msg, decorated := false }
  else { cls := .proxyOf e.cls, msg := e.msg ++ ctx, decorated := true }

end Fiddle
