/-
Memoized post-order rebuild of an object graph: the common core of
  * `daglish.MemoizedTraversal.run(lambda v, s: s.map_children(v), x)` (C08: identity rebuild),
  * `serialization.dump_json` (C09): the `objects` table of the document is exactly this
    rebuild — one entry per memoizable object, in post-order, children replaced by references
    to earlier entries — and `load_json` executes it entry by entry,
  * `copy.deepcopy` (C07), which the copy model states in closed form.
Every traversable object is visited once (memo by identity); its copy is allocated after its
children's copies, holding the children's copies under the same keys.
-/
import FiddleModel.Model.Graph

namespace Fiddle

structure RbSt where
  memo : List (Nat × Nat) := []     -- original index ↦ index of its copy in `out`
  out : Heap := []
deriving Repr, Inhabited

def rbGet (m : List (Nat × Nat)) (i : Nat) : Option Nat := (m.find? (fun kv => kv.1 == i)).map (·.2)

inductive RbErr | malformed | fuel
deriving DecidableEq, Repr, Inhabited

mutual
def rebuildVal (h : Heap) : Nat → GVal → RbSt → Except RbErr (GVal × RbSt)
  | 0, _, _ => .error .fuel
  | _ + 1, .atom t, st => .ok (.atom t, st)
  | fuel + 1, .ref i, st =>
    match rbGet st.memo i with
    | some j => .ok (.ref j, st)
    | none =>
      match h[i]? with
      | none => .error .malformed
      | some o =>
        match rebuildChildren h fuel o.children st with
        | .error e => .error e
        | .ok (vals, st1) =>
          let j := st1.out.length
          .ok (.ref j, { memo := (i, j) :: st1.memo,
                         out := st1.out ++ [{ o with children := (o.children.map (·.1)).zip vals }] })
def rebuildChildren (h : Heap) : Nat → List (PElem × GVal) → RbSt → Except RbErr (List GVal × RbSt)
  | _, [], st => .ok ([], st)
  | fuel, (_, v) :: rest, st =>
    match rebuildVal h fuel v st with
    | .error e => .error e
    | .ok (r, st1) =>
      match rebuildChildren h fuel rest st1 with
      | .error e => .error e
      | .ok (rs, st2) => .ok (r :: rs, st2)
end

/-- The rebuilt structure: its root value and the heap of new objects. -/
def rebuild (h : Heap) (root : GVal) : Except RbErr (GVal × RbSt) :=
  rebuildVal h (h.length + 1) root {}

end Fiddle
