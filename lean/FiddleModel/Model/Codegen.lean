/-
C12: the programs the code generators emit, and what executing them builds.

An emitted fixture is a sequence of assignments `var = expr` followed by `return expr`, where
an expression is a literal, a variable, a container display, or a constructor call
(`fdl.Config(fn, k=expr, ...)`, `fdl.Partial`, `fdl.ArgFactory`; in auto_config mode the bare
call `fn(k=expr, ...)` / `functools.partial`), with `fdl.TaggedValue(tags=…, default=e)` /
`auto_config.with_tags(e, …)` around an argument recorded as tags of that argument.
`CExpr.node` stands for every expression that creates a new object when evaluated.
Executing a program allocates one heap object per evaluated `node`, in evaluation order.
-/
import FiddleModel.Model.Graph

namespace Fiddle

inductive CExpr
  | atom (tok : String)
  | var (x : Nat)
  | node (kind : NKind) (ty bk : String) (sig : Sig) (children : List (PElem × CExpr))
      (tags : List (Key × List Nat))
deriving Repr, Inhabited

abbrev CEnv := List (Nat × GVal)

def CEnv.lookup (env : CEnv) (x : Nat) : Option GVal := (env.find? (fun e => e.1 == x)).map (·.2)

mutual
/-- Evaluate an expression: `none` = NameError (unbound variable). -/
def CExpr.eval : CExpr → CEnv → Heap → Option (GVal × Heap)
  | .atom t, _, h => some (.atom t, h)
  | .var x, env, h => (env.lookup x).map (fun v => (v, h))
  | .node kind ty bk sig ch tags, env, h =>
    match CExpr.evalCh ch env h with
    | none => none
    | some (vals, h1) =>
      some (.ref h1.length,
        h1 ++ [{ kind := kind, ty := ty, bk := bk, sig := sig, children := vals, tags := tags }])
def CExpr.evalCh : List (PElem × CExpr) → CEnv → Heap → Option (List (PElem × GVal) × Heap)
  | [], _, h => some ([], h)
  | (pe, e) :: r, env, h =>
    match e.eval env h with
    | none => none
    | some (v, h1) =>
      match CExpr.evalCh r env h1 with
      | none => none
      | some (vs, h2) => some ((pe, v) :: vs, h2)
end

/-- Run the assignments of a fixture body. -/
def runAssigns : List (Nat × CExpr) → CEnv → Heap → Option (CEnv × Heap)
  | [], env, h => some (env, h)
  | (x, e) :: r, env, h =>
    match e.eval env h with
    | none => none
    | some (v, h1) => runAssigns r ((x, v) :: env) h1

structure CProg where
  assigns : List (Nat × CExpr)
  ret : CExpr
deriving Repr, Inhabited

/-- Execute a fixture: the returned value and the heap of objects it created. -/
def CProg.run (p : CProg) : Option (GVal × Heap) :=
  match runAssigns p.assigns [] [] with
  | none => none
  | some (env, h) => p.ret.eval env h

/-! ## Calling the function directly (C11)

The same program text, executed as ordinary Python: a call expression *invokes* its callable
with the evaluated arguments (what the callable receives is Python's binding of them against
its signature) and a display creates a container. One new result object per evaluated `node`,
in evaluation order; values are references into the result heap. `none` = NameError, or the
binding of a call raised. -/

/-- A program value read as a value of the result heap. -/
def toB : GVal → BVal
  | .atom t => .atom t
  | .ref i => .built i

/-- What a configuration object is when the call it records is made: the call record of its
    callable on the images of its arguments / the container of the images of its children. -/
def builtOf (o : GObj) : Option BObj :=
  if o.kind == .cfg then
    match bindBuilt o (o.children.map (fun c => toB c.2)) with
    | .ok (slots, var, kw) => some (.call o.ty slots var kw)
    | .error _ => none
  else some (.container o.kind o.ty ((o.children.map (·.1)).zip (o.children.map (fun c => toB c.2))))

mutual
def CExpr.call : CExpr → CEnv → List BObj → Option (GVal × List BObj)
  | .atom t, _, out => some (.atom t, out)
  | .var x, env, out => (env.lookup x).map (fun v => (v, out))
  | .node kind ty bk sig ch tags, env, out =>
    match CExpr.callCh ch env out with
    | none => none
    | some (vals, out1) =>
      match builtOf { kind := kind, ty := ty, bk := bk, sig := sig, children := vals, tags := tags } with
      | none => none
      | some b => some (.ref out1.length, out1 ++ [b])
def CExpr.callCh : List (PElem × CExpr) → CEnv → List BObj → Option (List (PElem × GVal) × List BObj)
  | [], _, out => some ([], out)
  | (pe, e) :: r, env, out =>
    match e.call env out with
    | none => none
    | some (v, out1) =>
      match CExpr.callCh r env out1 with
      | none => none
      | some (vs, out2) => some ((pe, v) :: vs, out2)
end

def callAssigns : List (Nat × CExpr) → CEnv → List BObj → Option (CEnv × List BObj)
  | [], env, out => some (env, out)
  | (x, e) :: r, env, out =>
    match e.call env out with
    | none => none
    | some (v, out1) => callAssigns r ((x, v) :: env) out1

/-- Call the function whose body is `p`: the returned value and the objects it created. -/
def CProg.callRun (p : CProg) : Option (GVal × List BObj) :=
  match callAssigns p.assigns [] [] with
  | none => none
  | some (env, out) => p.ret.call env out

/-! ## One code generator: every object gets its own variable (complexity threshold 0) -/

def childExpr (c : PElem × GVal) : PElem × CExpr :=
  (c.1, match c.2 with
    | .atom t => .atom t
    | .ref j => .var j)

def objExpr (o : GObj) : CExpr :=
  .node o.kind o.ty o.bk o.sig (o.children.map childExpr) o.tags

def straightLine (h : Heap) (root : GVal) : CProg :=
  { assigns := h.zipIdx.map (fun oi => (oi.2, objExpr oi.1)),
    ret := match root with
      | .atom t => .atom t
      | .ref j => .var j }

end Fiddle
