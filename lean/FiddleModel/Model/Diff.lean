/-
C10/C13: diffs between two Buildables of one node (callable, named arguments, tags), their
application in the phase order of `diffing._apply_changes`, and the statements of a generated
fiddler.

A change is applied by `DiffOperation.apply` through the Buildable's own `__setattr__` /
`__delattr__` / `add_tag` / `remove_tag` / `update_callable`, which validate argument names
against the *current* callable: that is why the phase order matters (delete what the new
callable does not accept, change the callable, then set what only the new one accepts).
`sg f` lists the argument names callable `f` accepts.
-/
import FiddleModel.Model.ArgStore

namespace Fiddle.Diff

inductive Change
  | deleteValue (k : String)
  | removeTag (k : String) (t : Nat)
  | modifyFn (f : String)                 -- ModifyValue of `__fn_or_cls__`
  | modifyValue (k : String) (v : Val)
  | setValue (k : String) (v : Val)
  | addTag (k : String) (t : Nat)
deriving DecidableEq, Repr, Inhabited

/-- The `DiffOperation` subclass, as named in the `for op_type in (...)` tuple. -/
def Change.opType : Change → String
  | .deleteValue _ => "DeleteValue"
  | .removeTag _ _ => "RemoveTag"
  | .modifyFn _ => "ModifyValue"
  | .modifyValue _ _ => "ModifyValue"
  | .setValue _ _ => "SetValue"
  | .addTag _ _ => "AddTag"

structure Flat where
  fn : String
  args : Dict Val := []
  tags : Dict (List Nat) := []
deriving DecidableEq, Repr, Inhabited

abbrev Sigs := String → List String

def Flat.tagsOf (c : Flat) (k : String) : List Nat := (c.tags.get? (.name k)).getD []

def accepts (sg : Sigs) (f : String) (k : Key) : Bool :=
  match k with
  | .name n => (sg f).contains n
  | .idx _ => false

/-- `diff_op.apply(parent, child)` on a Buildable parent. -/
def apply1 (sg : Sigs) (c : Flat) : Change → Except Err Flat
  | .deleteValue k =>
    if c.args.contains (.name k) then .ok { c with args := c.args.del (.name k) }
    else .error .valueError
  | .removeTag k t =>
    if (c.tagsOf k).contains t then
      .ok { c with tags := c.tags.set (.name k) ((c.tagsOf k).filter (· != t)) }
    else .error .valueError
  | .modifyFn f =>
    if c.args.keys.all (accepts sg f) then .ok { c with fn := f } else .error .typeError
  | .modifyValue k v =>
    if c.args.contains (.name k) then .ok { c with args := c.args.set (.name k) v }
    else .error .valueError
  | .setValue k v =>
    if (sg c.fn).contains k then .ok { c with args := c.args.set (.name k) v }
    else .error .attributeError
  | .addTag k t =>
    if (sg c.fn).contains k then
      .ok { c with tags := c.tags.set (.name k) (tagInsert (c.tagsOf k) t) }
    else .error .attributeError

def applyAll (sg : Sigs) : Flat → List Change → Except Err Flat
  | c, [] => .ok c
  | c, ch :: r =>
    match apply1 sg c ch with
    | .ok c' => applyAll sg c' r
    | .error e => .error e

/-- `_apply_changes`: one pass over all changes per operation type, in the given order. -/
def applyPhases (sg : Sigs) : List String → List Change → Flat → Except Err Flat
  | [], _, c => .ok c
  | ty :: r, chs, c =>
    match applyAll sg c (chs.filter (fun ch => ch.opType == ty)) with
    | .ok c' => applyPhases sg r chs c'
    | .error e => .error e

/-! ## build_diff for one node -/

def nameOf : Key → Option String
  | .name n => some n
  | .idx _ => none

def dels (old new : Flat) : List String :=
  old.args.keys.filterMap (fun k => if new.args.contains k then none else nameOf k)

def mods (old new : Flat) : List (String × Val) :=
  old.args.filterMap (fun kv => match nameOf kv.1, new.args.get? kv.1 with
    | some n, some v' => if v' = kv.2 then none else some (n, v')
    | _, _ => none)

def sets (old new : Flat) : List (String × Val) :=
  new.args.filterMap (fun kv => match nameOf kv.1 with
    | some n => if old.args.contains kv.1 then none else some (n, kv.2)
    | none => none)

def tagPairs (a b : Flat) : List (String × Nat) :=
  a.tags.flatMap (fun kt => match nameOf kt.1 with
    | some n => (kt.2.filter (fun t => !(b.tagsOf n).contains t)).eraseDups.map (fun t => (n, t))
    | none => [])

def fnChange (old new : Flat) : List Change :=
  if old.fn = new.fn then [] else [.modifyFn new.fn]

def flatDiff (old new : Flat) : List Change :=
  (dels old new).map .deleteValue ++
  (tagPairs old new).map (fun p => .removeTag p.1 p.2) ++
  fnChange old new ++
  (mods old new).map (fun p => .modifyValue p.1 p.2) ++
  (sets old new).map (fun p => .setValue p.1 p.2) ++
  (tagPairs new old).map (fun p => .addTag p.1 p.2)

/-! ## Fiddlers (C13): the statements `fiddler_from_diff` emits for one node -/

inductive Stmt
  | delAttr (k : String)                  -- `del cfg.k`
  | removeTag (k : String) (t : Nat)      -- `fdl.remove_tag(cfg, 'k', T)`
  | updateCallable (f : String)           -- `fdl.update_callable(cfg, f)`
  | assign (k : String) (v : Val)         -- `cfg.k = v`
  | addTag (k : String) (t : Nat)         -- `fdl.add_tag(cfg, 'k', T)`
deriving DecidableEq, Repr, Inhabited

/-- What one emitted statement does when the fiddler runs. -/
def exec1 (sg : Sigs) (c : Flat) : Stmt → Except Err Flat
  | .delAttr k =>
    if c.args.contains (.name k) then .ok { c with args := c.args.del (.name k) }
    else .error .attributeError
  | .removeTag k t =>
    if (c.tagsOf k).contains t then
      .ok { c with tags := c.tags.set (.name k) ((c.tagsOf k).filter (· != t)) }
    else .error .valueError
  | .updateCallable f =>
    if c.args.keys.all (accepts sg f) then .ok { c with fn := f } else .error .typeError
  | .assign k v =>
    if (sg c.fn).contains k then .ok { c with args := c.args.set (.name k) v }
    else .error .attributeError
  | .addTag k t =>
    if (sg c.fn).contains k then
      .ok { c with tags := c.tags.set (.name k) (tagInsert (c.tagsOf k) t) }
    else .error .attributeError

def execAll (sg : Sigs) : Flat → List Stmt → Except Err Flat
  | c, [] => .ok c
  | c, st :: r =>
    match exec1 sg c st with
    | .ok c' => execAll sg c' r
    | .error e => .error e

def emit1 : Change → Stmt
  | .deleteValue k => .delAttr k
  | .removeTag k t => .removeTag k t
  | .modifyFn f => .updateCallable f
  | .modifyValue k v => .assign k v
  | .setValue k v => .assign k v
  | .addTag k t => .addTag k t

def Change.isDeleteLike : Change → Bool
  | .deleteValue _ => true
  | .removeTag _ _ => true
  | _ => false

def Change.isFn : Change → Bool
  | .modifyFn _ => true
  | _ => false

def Change.isAssignLike : Change → Bool
  | .modifyValue _ _ => true
  | .setValue _ _ => true
  | .addTag _ _ => true
  | _ => false

/-- The order in which `_cst_for_changes` emits the changes of one parent: deletions and tag
    removals (in diff order), then the callable, then assignments and tag additions (in diff
    order). -/
def regroup (chs : List Change) : List Change :=
  chs.filter Change.isDeleteLike ++ chs.filter Change.isFn ++ chs.filter Change.isAssignLike

/-- `fiddler_from_diff` for one node. -/
def emit (chs : List Change) : List Stmt := (regroup chs).map emit1

end Fiddle.Diff
