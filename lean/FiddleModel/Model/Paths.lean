/-
The path grammar shared by the flattened printers and the command-line override parser.

  printing._path_str            : daglish path  →  text      (`printed`)
  absl_flags.utils.parse_path   : text → daglish path         (`reDot` then `parsePath`)
  absl_flags.utils.set_value    : "path=value" → (path, value) (`splitAssign`)

Text is `List Char` (the driver converts).  `parsePath` is the deterministic scanner the regular
expression `\.(?P<attr_name>[\w_]+)|\[(?P<key>\d+|'[^']*'|"[^"]*")\]` of
`daglish_extensions._PATH_PART` denotes, followed by `ast.literal_eval` of the key text.

Modelled subset (everything else answers `unsupported`, never a default):
  * `\w` and `\d` are the ASCII classes (Python's are the Unicode ones);
  * string keys are printed for characters U+0020..U+007E and `\n`, `\r`, `\t` only (`repr`
    escapes other characters as `\xNN` / `\uNNNN`), without quotes (the property's scope);
  * `literal_eval` of a quoted key handles the escapes `\\ \' \" \n \r \t`.
-/
namespace Fiddle.Paths

/-- Three-way outcome: the real code returns, the real code raises, or outside the model. -/
inductive Res (α : Type)
  | ok (a : α)
  | error            -- ValueError / SyntaxError
  | unsupported
deriving DecidableEq, Repr

inductive KeyVal
  | int (n : Nat)
  | str (s : List Char)
deriving DecidableEq, Repr

/-- A daglish path element as the printers meet it. -/
inductive Elem
  | attr (name : List Char)      -- `Attr` / `BuildableAttr`
  | index (n : Nat)              -- `Index`
  | key (k : KeyVal)             -- `Key`
deriving DecidableEq, Repr

/-- What `parse_path` returns: only `Attr` and `Key` (it cannot tell `Index` from `Key`). -/
inductive PE
  | attr (name : List Char)
  | key (k : KeyVal)
deriving DecidableEq, Repr

def Elem.toParsed : Elem → PE
  | .attr n => .attr n
  | .index n => .key (.int n)
  | .key k => .key k

/-! ## Characters -/

def isWord (c : Char) : Bool :=
  ('a' ≤ c && c ≤ 'z') || ('A' ≤ c && c ≤ 'Z') || ('0' ≤ c && c ≤ '9') || c == '_'

def isDigit (c : Char) : Bool := '0' ≤ c && c ≤ '9'

def digitChar : Nat → Char
  | 0 => '0' | 1 => '1' | 2 => '2' | 3 => '3' | 4 => '4'
  | 5 => '5' | 6 => '6' | 7 => '7' | 8 => '8' | _ => '9'

def digitVal (c : Char) : Nat := c.toNat - 48

/-- `str(n)` for a non-negative int. -/
def natRepr (n : Nat) : List Char :=
  if h : n < 10 then [digitChar n] else natRepr (n / 10) ++ [digitChar (n % 10)]
decreasing_by omega

def evalDigits (ds : List Char) : Nat := ds.foldl (fun a c => 10 * a + digitVal c) 0

/-- `ast.literal_eval` of a run of digits: leading zeros are a SyntaxError unless the literal is
    all zeros. -/
def evalInt (ds : List Char) : Res Nat :=
  if ds.all (· == '0') then .ok 0
  else match ds with
    | '0' :: _ => .error
    | _ => .ok (evalDigits ds)

/-! ## Printing -/

/-- Characters `repr` prints as themselves inside single quotes (ASCII printable, no quotes, no
    backslash). -/
def plainChar (c : Char) : Bool :=
  32 ≤ c.toNat && c.toNat < 127 && c != '\'' && c != '"' && c != '\\'

def escapeChar (c : Char) : Res (List Char) :=
  if c == '\\' then .ok ['\\', '\\']
  else if c == '\n' then .ok ['\\', 'n']
  else if c == '\r' then .ok ['\\', 'r']
  else if c == '\t' then .ok ['\\', 't']
  else if plainChar c then .ok [c]
  else .unsupported

def escape : List Char → Res (List Char)
  | [] => .ok []
  | c :: r =>
    match escapeChar c, escape r with
    | .ok a, .ok b => .ok (a ++ b)
    | _, _ => .unsupported

/-- `PathElement.code`. -/
def code : Elem → Res (List Char)
  | .attr n => .ok ('.' :: n)
  | .index n => .ok ('[' :: natRepr n ++ [']'])
  | .key (.int n) => .ok ('[' :: natRepr n ++ [']'])
  | .key (.str s) =>
    match escape s with
    | .ok e => .ok ('[' :: '\'' :: e ++ ['\'', ']'])
    | _ => .unsupported

/-- `daglish.path_str`. -/
def pathStr : List Elem → Res (List Char)
  | [] => .ok []
  | e :: r =>
    match code e, pathStr r with
    | .ok a, .ok b => .ok (a ++ b)
    | _, _ => .unsupported

def startsWithAttr : List Elem → Bool
  | .attr _ :: _ => true
  | _ => false

/-- `printing._path_str`: the leading dot of an attribute is dropped. -/
def printed (p : List Elem) : Res (List Char) :=
  match pathStr p with
  | .ok s => .ok (if startsWithAttr p then s.tail else s)
  | r => r

/-! ## Parsing -/

/-- The longest prefix of characters satisfying `p`, and the rest. -/
def spanP (p : Char → Bool) : List Char → List Char × List Char
  | [] => ([], [])
  | c :: r => if p c then ((spanP p r).1.cons c, (spanP p r).2) else ([], c :: r)

/-- `literal_eval` of the text between the quotes. -/
def unescape : List Char → Res (List Char)
  | [] => .ok []
  | c :: r =>
    if c = '\\' then
      match r with
      | [] => .error                       -- the closing quote is escaped: unterminated literal
      | d :: r' =>
        let one (x : Char) : Res (List Char) :=
          match unescape r' with
          | .ok t => .ok (x :: t)
          | e => e
        if d = '\\' then one '\\'
        else if d = '\'' then one '\''
        else if d = '"' then one '"'
        else if d = 'n' then one '\n'
        else if d = 'r' then one '\r'
        else if d = 't' then one '\t'
        else .unsupported
    else if c = '\n' ∨ c = '\r' ∨ c.toNat = 0 then .error
    else match unescape r with
      | .ok t => .ok (c :: t)
      | e => e

/-- `\.(?P<attr_name>[\w_]+)` after the dot. -/
def scanAttr (cs : List Char) : Res (PE × List Char) :=
  match spanP isWord cs with
  | ([], _) => .error
  | (name, rest) => .ok (.attr name, rest)

/-- `q[^q]*q\]` after the opening quote `q`, then `literal_eval`. -/
def scanQuoted (q : Char) (cs : List Char) : Res (PE × List Char) :=
  match spanP (· != q) cs with
  | (body, c1 :: c2 :: rest) =>
    if c1 = q ∧ c2 = ']' then
      match unescape body with
      | .ok s => .ok (.key (.str s), rest)
      | .error => .error
      | .unsupported => .unsupported
    else .error
  | _ => .error

/-- `\d+\]`, then `literal_eval`. -/
def scanDigits (cs : List Char) : Res (PE × List Char) :=
  match spanP isDigit cs with
  | ([], _) => .error
  | (ds, c :: rest) =>
    if c = ']' then
      match evalInt ds with
      | .ok n => .ok (.key (.int n), rest)
      | .error => .error
      | .unsupported => .unsupported
    else .error
  | _ => .error

/-- One match of `_PATH_PART` at the start of the text: the element and the rest. -/
def scan : List Char → Res (PE × List Char)
  | [] => .error
  | c :: cs =>
    if c = '.' then scanAttr cs
    else if c = '[' then
      match cs with
      | [] => .error
      | d :: cs' =>
        if d = '\'' then scanQuoted '\'' cs'
        else if d = '"' then scanQuoted '"' cs'
        else scanDigits cs
    else .error

/-- `daglish_extensions.parse_path`: repeat `scan` until the text is used up (`fuel` bounds the
    number of elements; every match consumes at least one character, so the length suffices). -/
def parseFuel : Nat → List Char → Res (List PE)
  | _, [] => .ok []
  | 0, _ :: _ => .error
  | fuel + 1, cs =>
    match scan cs with
    | .ok (e, rest) =>
      (match parseFuel fuel rest with
       | .ok es => .ok (e :: es)
       | r => r)
    | .error => .error
    | .unsupported => .unsupported

def parsePath (cs : List Char) : Res (List PE) := parseFuel cs.length cs

/-- `parsePath` on text within the modelled character set (ASCII: Python's `\w` / `\d` also
    match non-ASCII letters and digits, which the scanner above does not). -/
def parseText (cs : List Char) : Res (List PE) :=
  if cs.all (fun c => c.toNat < 128) then parsePath cs else .unsupported

/-- `absl_flags.utils.parse_path`: a leading dot is added unless the text starts with `[` or `.`. -/
def reDot : List Char → List Char
  | '[' :: r => '[' :: r
  | '.' :: r => '.' :: r
  | cs => '.' :: cs

/-- `assignment.split('=', maxsplit=1)` (`none`: no `=`, the real code raises). -/
def splitAssign (cs : List Char) : Option (List Char × List Char) :=
  match spanP (· != '=') cs with
  | (a, '=' :: b) => some (a, b)
  | _ => none

end Fiddle.Paths
