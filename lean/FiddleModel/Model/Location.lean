/-
`history._stacktrace_location_provider`: walk the stack from the innermost frame outwards and
return the first frame whose file name does not end with an excluded suffix.
-/
namespace Fiddle

structure Frame where
  file : String
  line : Nat
deriving DecidableEq, Repr, Inhabited

def excluded (excl : List String) (f : Frame) : Bool := excl.any (fun suf => f.file.endsWith suf)

/-- Innermost frame first. `none` = `RuntimeError` (no suitable frame). -/
def locate (excl : List String) : List Frame → Option Frame
  | [] => none
  | f :: r => if excluded excl f then locate excl r else some f

end Fiddle
