/-
C04: what a built `fdl.Partial` does when it is called.

The argument structure of the built partial is a tree `AV`: objects that exist at build time
(`leaf`: plain values, results of nested Configs, inner partials; `cont`: list/tuple/dict/...
containers with identity) and built ArgFactories (`fac`).  Mirrors `partial._build_partial`
(promotion of containers that contain factories, `_invoke_arg_factories`) and
`arg_factory.partial` / `functools.partial` (call-time keywords override configured ones).
-/
import FiddleModel.Model.Graph

namespace Fiddle

inductive AV
  | atom (tok : String)
  | leaf (id : Nat) (tok : String)
  | fac (fn : String) (sig : Sig) (args : List AV) (kw : List (String × AV))
  | cont (id : Nat) (kind : NKind) (ty : String) (children : List (PElem × AV))
deriving Repr, Inhabited

/-- Values delivered to the callable. `fresh n` identities are allocated at call time. -/
inductive Ident | build (id : Nat) | fresh (n : Nat)
deriving DecidableEq, Repr, Inhabited

inductive RV
  | atom (tok : String)
  | leaf (id : Nat) (tok : String)
  | obj (n : Nat) (fn : String) (slots : List (String × RV)) (var : List RV) (kw : List (String × RV))
  | cont (ident : Ident) (kind : NKind) (ty : String) (children : List (PElem × RV))
  | dflt (name : String)
deriving Repr, Inhabited

mutual
/-- `_contains_arg_factory`. -/
def AV.hasFactory : AV → Bool
  | .atom _ => false
  | .leaf _ _ => false
  | .fac _ _ _ _ => true
  | .cont _ _ _ ch => AV.hasFactoryL ch
def AV.hasFactoryL : List (PElem × AV) → Bool
  | [] => false
  | (_, a) :: r => a.hasFactory || AV.hasFactoryL r
end

/-- Bind evaluated arguments to a factory's callable (Python call semantics), placeholders
    `v k` standing for the k-th evaluated value. -/
def bindRV (sig : Sig) (args : List RV) (kw : List (String × RV)) :
    Option (List (String × RV) × List RV × List (String × RV)) :=
  let n := args.length
  let all := args ++ kw.map (·.2)
  let pos : List Val := (List.range n).map Val.v
  let kws : List (String × Val) := kw.zipIdx.map (fun (nv, i) => (nv.1, Val.v (n + i)))
  match pyCall sig pos kws with
  | .error _ => none
  | .ok b =>
    let back : Val → RV := fun v => match v with
      | .v k => all.getD k (.atom "?")
      | .d name => .dflt name
      | _ => .atom "?"
    some (b.slots.map (fun (s, v) => (s, back v)), b.var.map back, b.kw.map (fun (s, v) => (s, back v)))

mutual
/-- Evaluate an argument for one call: factories are invoked (fresh object, their own
    arguments evaluated first), containers that contain a factory are copied, everything else
    is passed through with its build-time identity. `ctr` is the allocation counter. -/
def AV.invoke : AV → Nat → Option (RV × Nat)
  | .atom t, ctr => some (.atom t, ctr)
  | .leaf i t, ctr => some (.leaf i t, ctr)
  | .fac fn sig args kw, ctr =>
    match AV.invokeArgs args ctr with
    | none => none
    | some (as, ctr1) =>
      match AV.invokeKw kw ctr1 with
      | none => none
      | some (ks, ctr2) =>
        match bindRV sig as ks with
        | none => none
        | some (slots, var, kwr) => some (.obj ctr2 fn slots var kwr, ctr2 + 1)
  | .cont i kind ty ch, ctr =>
    if AV.hasFactoryL ch then
      match AV.invokeCh ch ctr with
      | none => none
      | some (rs, ctr1) => some (.cont (.fresh ctr1) kind ty rs, ctr1 + 1)
    else
      match AV.invokeCh ch ctr with      -- no factory below: nothing is allocated (see theorem)
      | none => none
      | some (rs, ctr1) => some (.cont (.build i) kind ty rs, ctr1)
def AV.invokeArgs : List AV → Nat → Option (List RV × Nat)
  | [], ctr => some ([], ctr)
  | a :: r, ctr =>
    match a.invoke ctr with
    | none => none
    | some (v, ctr1) =>
      match AV.invokeArgs r ctr1 with
      | none => none
      | some (vs, ctr2) => some (v :: vs, ctr2)
def AV.invokeKw : List (String × AV) → Nat → Option (List (String × RV) × Nat)
  | [], ctr => some ([], ctr)
  | (k, a) :: r, ctr =>
    match a.invoke ctr with
    | none => none
    | some (v, ctr1) =>
      match AV.invokeKw r ctr1 with
      | none => none
      | some (vs, ctr2) => some ((k, v) :: vs, ctr2)
def AV.invokeCh : List (PElem × AV) → Nat → Option (List (PElem × RV) × Nat)
  | [], ctr => some ([], ctr)
  | (k, a) :: r, ctr =>
    match a.invoke ctr with
    | none => none
    | some (v, ctr1) =>
      match AV.invokeCh r ctr1 with
      | none => none
      | some (vs, ctr2) => some ((k, v) :: vs, ctr2)
end

/-- A built Partial: the callable's signature and the configured positional / keyword
    arguments (already built). -/
structure BuiltPartial where
  fn : String
  sig : Sig
  args : List AV
  kw : List (String × AV)
deriving Repr, Inhabited

/-- Call-time arguments are plain values (leaves / atoms). -/
structure CallArgs where
  args : List AV := []
  kw : List (String × AV) := []
deriving Repr, Inhabited

def overrideKw (cfg call : List (String × AV)) : List (String × AV) :=
  (cfg.filter (fun kv => !call.any (fun c => c.1 == kv.1))) ++ call

/-- One call of the built partial: `fn(*cfgArgs, *callArgs, **{**cfgKw, **callKw})` with the
    effective arguments evaluated for this call. `none` = the call raises. -/
def BuiltPartial.call (p : BuiltPartial) (c : CallArgs) (ctr : Nat) : Option (RV × Nat) :=
  (AV.fac p.fn p.sig (p.args ++ c.args) (overrideKw p.kw c.kw)).invoke ctr

/-- A sequence of calls, threading the allocation counter. -/
def BuiltPartial.calls (p : BuiltPartial) : List CallArgs → Nat → List (Option RV)
  | [], _ => []
  | c :: r, ctr =>
    match p.call c ctr with
    | none => none :: p.calls r ctr
    | some (v, ctr1) => some v :: p.calls r ctr1

end Fiddle
