/-
`Buildable.__eq__` (`config._compare_buildable` + `_same_sharing_structure`) over two heaps.

Value comparison: Python `==` on the argument values — lists/tuples element-wise in order,
dicts by key regardless of insertion order, Buildables by type, callable and per-key
value-or-default; then the sharing structures are compared by a lockstep walk that matches
children by path element and maintains a one-to-one correspondence between objects.
-/
import FiddleModel.Model.Graph

namespace Fiddle

/-- Children of a node as seen by the defaults-aware registry: for a Buildable, unset
    parameters that have a default appear with their default object. -/
def childrenWithDefaults (o : GObj) : List (PElem × GVal) :=
  if o.kind != .cfg then o.children
  else o.children ++ o.defaults.filter (fun d => !o.children.any (fun c => c.1 == d.1))

/-- Children *and* default objects refer to earlier objects; argument names (including those
    of defaulted parameters) are distinct per object. -/
structure Heap.EqWF (h : Heap) : Prop where
  ch : ∀ (i : Nat) (o : GObj), h[i]? = some o → ∀ pv ∈ childrenWithDefaults o,
    ∀ j : Nat, pv.2 = GVal.ref j → j < i
  keys : ∀ (i : Nat) (o : GObj), h[i]? = some o → ((childrenWithDefaults o).map (·.1)).Nodup
  keys' : ∀ (i : Nat) (o : GObj), h[i]? = some o → (o.children.map (·.1)).Nodup
  ch' : ∀ (i : Nat) (o : GObj), h[i]? = some o → ∀ pv ∈ o.children,
    ∀ j : Nat, pv.2 = GVal.ref j → j < i

def Heap.eqWFB (h : Heap) : Bool :=
  h.zipIdx.all (fun (oi : GObj × Nat) =>
    (childrenWithDefaults oi.1).all (fun pv => match pv.2 with
      | GVal.ref j => decide (j < oi.2)
      | GVal.atom _ => true) &&
    oi.1.children.all (fun pv => match pv.2 with
      | GVal.ref j => decide (j < oi.2)
      | GVal.atom _ => true) &&
    decide (((childrenWithDefaults oi.1).map (·.1)).Nodup) &&
    decide ((oi.1.children.map (·.1)).Nodup))

def lookupChild (ch : List (PElem × GVal)) (pe : PElem) : Option GVal :=
  (ch.find? (fun c => c.1 == pe)).map (·.2)

/-- Python `==` between two values (no sharing information). Dict-like kinds and Buildables
    compare their children as maps; sequences compare in order. -/
def valEq (h1 h2 : Heap) : Nat → GVal → GVal → Bool
  | _, .atom a, .atom b => a == b
  | 0, _, _ => false
  | fuel + 1, .ref i, .ref j =>
    match h1[i]?, h2[j]? with
    | some a, some b =>
      if a.kind != b.kind || a.ty != b.ty || a.bk != b.bk then false
      else
        match a.kind with
        | .opaque => true       -- same token (`ty`)
        | .list | .tuple | .ntuple | .custom =>
          a.children.length == b.children.length &&
          (a.children.zip b.children).all (fun (x, y) => x.1 == y.1 && valEq h1 h2 fuel x.2 y.2)
        | .dict | .ddict =>
          a.children.length == b.children.length &&
          a.children.all (fun x => match lookupChild b.children x.1 with
            | some y => valEq h1 h2 fuel x.2 y
            | none => false)
        | .cfg =>
          let ca := childrenWithDefaults a
          let cb := childrenWithDefaults b
          ca.length == cb.length &&
          ca.all (fun x => match lookupChild cb x.1 with
            | some y => valEq h1 h2 fuel x.2 y
            | none => false)
    | _, _ => false
  | _, _, _ => false

structure ShareSt where
  xToY : List (Nat × Nat) := []
  yToX : List (Nat × Nat) := []
deriving Repr, Inhabited

def assocGet (m : List (Nat × Nat)) (k : Nat) : Option Nat := (m.find? (fun kv => kv.1 == k)).map (·.2)

/-- `_same_sharing_structure.visit`: `none` = mismatch. -/
def shareVisit (h1 h2 : Heap) : Nat → GVal → GVal → ShareSt → Option ShareSt
  | _, .atom _, _, st => some st
  | _, _, .atom _, st => some st
  | 0, _, _, _ => none
  | fuel + 1, .ref i, .ref j, st =>
    if isInternable h1 (h1.length + 1) (.ref i) || isInternable h2 (h2.length + 1) (.ref j) then some st
    else
      match assocGet st.xToY i, assocGet st.yToX j with
      | none, none =>
        let st := { xToY := (i, j) :: st.xToY, yToX := (j, i) :: st.yToX }
        match h1[i]?, h2[j]? with
        | some a, some b =>
          if a.kind == .opaque || b.kind == .opaque then some st
          else
            let ca := childrenWithDefaults a
            let cb := childrenWithDefaults b
            if ca.length != cb.length then none
            else
              ca.foldl (fun acc x =>
                match acc with
                | none => none
                | some st =>
                  match lookupChild cb x.1 with
                  | none => none
                  | some y => shareVisit h1 h2 fuel x.2 y st) (some st)
        | _, _ => none
      | some j', some i' => if j' == j && i' == i then some st else none
      | _, _ => none

/-- `x == y` for two Buildable roots. -/
def buildableEq (h1 h2 : Heap) (r1 r2 : GVal) : Bool :=
  let fuel := h1.length + h2.length + 2
  valEq h1 h2 fuel r1 r2 && (shareVisit h1 h2 fuel r1 r2 {}).isSome

end Fiddle
