/-
C18 — printed paths are valid override paths; flag directives apply in order.
(This file: the directive queue. The path grammar is tied by correspondence.)
-/
import FiddleModel.Model.Flags

namespace Fiddle

variable {C : Type}

/-- Draining a queue applies exactly its directives, in order, each once, and the resulting
    value is the fold of the directives over the value so far. -/
theorem drain_spec (sem : Semantics C) (ds : List Directive) :
    ∀ (st st' : FlagSt C), FlagSt.drain sem st ds = .ok st' →
      st'.applied = st.applied ++ ds ∧ st'.value = foldDirectives sem st.value ds ∧
      st'.remaining = [] := by
  induction ds with
  | nil => intro st st' h; simp [FlagSt.drain] at h; subst h; simp [foldDirectives]
  | cons d r ih =>
    intro st st' h
    simp only [FlagSt.drain] at h
    split at h
    · cases h
    · rename_i st1 h1
      have := ih st1 st' h
      cases d <;>
      · simp only [FlagSt.apply1] at h1
        repeat' split at h1
        all_goals first
          | (cases h1; done)
          | (cases h1
             simp only [foldDirectives] at this ⊢
             exact ⟨by simpa [List.append_assoc] using this.1, this.2.1, this.2.2⟩)

/-- **In order, exactly once**: `parse(args₁); value; parse(args₂); value` ends in the same
    state as `parse(args₁ ++ args₂); value`: same applied log (= the command line), same
    value (= the fold over the command line). -/
theorem C18_in_order (sem : Semantics C) (a1 a2 : List Directive) (s1 s2 : FlagSt C)
    (h1 : (({} : FlagSt C).parse a1).getValue sem = .ok s1)
    (h2 : (s1.parse a2).getValue sem = .ok s2) :
    s2.applied = a1 ++ a2 ∧ s2.value = foldDirectives sem none (a1 ++ a2) := by
  have e1 := drain_spec sem a1 _ s1 h1
  have e2 := drain_spec sem (s1.remaining ++ a2) _ s2 h2
  simp only [FlagSt.parse] at e1 e2
  rw [e1.2.2] at e2
  simp only [List.nil_append] at e1 e2
  refine ⟨by rw [e2.1, e1.1], ?_⟩
  rw [e2.2.1, e1.2.1]
  -- fold over an append = fold of the second list from the fold of the first
  have fold_append : ∀ (l1 l2 : List Directive) (v : Option C),
      foldDirectives sem (foldDirectives sem v l1) l2 = foldDirectives sem v (l1 ++ l2) := by
    intro l1
    induction l1 with
    | nil => intro l2 v; rfl
    | cons d r ih => intro l2 v; cases d <;> simp [foldDirectives, ih]
  exact fold_append a1 a2 none

/-- Any number of `parse` calls before one `value`: the queue is the concatenation. -/
theorem C18_parse_accumulates (st : FlagSt C) (a1 a2 : List Directive) :
    ((st.parse a1).parse a2).remaining = st.remaining ++ a1 ++ a2 := by
  simp [FlagSt.parse, List.append_assoc]

/-- The first directive must provide the base configuration. -/
theorem C18_first_must_be_config (sem : Semantics C) (a : String) (r : List Directive) :
    (({} : FlagSt C).parse (.set a :: r)).getValue sem = .error .firstMustBeConfig := by
  simp [FlagSt.parse, FlagSt.getValue, FlagSt.drain, FlagSt.apply1]

/-- Non-vacuity: a command line with a base config, two overrides and a fiddler drains. -/
example : ∃ s : FlagSt (List String),
    (({} : FlagSt (List String)).parse [.config "b", .set "x=1", .fiddler "f", .set "y=2"]).getValue
      ⟨fun e => [e], fun c a => c ++ [a], fun c e => c ++ [e]⟩ = .ok s
      ∧ s.value = some ["b", "x=1", "f", "y=2"] := by
  refine ⟨_, rfl, rfl⟩

end Fiddle
