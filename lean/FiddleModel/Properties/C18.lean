/-
C18 — printed paths are valid override paths; flag directives apply in order.
(The directive queue, and the path grammar: printed paths parse back to the path they print.)
-/
import FiddleModel.Model.Flags
import FiddleModel.Lemmas.PathsL
import FiddleModel.Generated.Tables

namespace Fiddle

variable {C : Type}

/-- Draining a queue applies exactly its directives, in order, each once, and the resulting
    value is the fold of the directives over the value so far. -/
theorem drain_spec (sem : Semantics C) (ds : List Directive) :
    ∀ (st st' : FlagSt C), FlagSt.drain sem st ds = .ok st' →
      st'.applied = st.applied ++ ds ∧ st'.value = foldDirectives sem st.value ds ∧
      st'.remaining = [] := by
  induction ds with
  | nil => intro st st' h; simp [FlagSt.drain] at h; subst h; simp [foldDirectives]
  | cons d r ih =>
    intro st st' h
    simp only [FlagSt.drain] at h
    split at h
    · cases h
    · rename_i st1 h1
      have := ih st1 st' h
      cases d <;>
      · simp only [FlagSt.apply1] at h1
        repeat' split at h1
        all_goals first
          | (cases h1; done)
          | (cases h1
             simp only [foldDirectives] at this ⊢
             exact ⟨by simpa [List.append_assoc] using this.1, this.2.1, this.2.2⟩)

/-- **In order, exactly once**: `parse(args₁); value; parse(args₂); value` ends in the same
    state as `parse(args₁ ++ args₂); value`: same applied log (= the command line), same
    value (= the fold over the command line). -/
theorem C18_in_order (sem : Semantics C) (a1 a2 : List Directive) (s1 s2 : FlagSt C)
    (h1 : (({} : FlagSt C).parse a1).getValue sem = .ok s1)
    (h2 : (s1.parse a2).getValue sem = .ok s2) :
    s2.applied = a1 ++ a2 ∧ s2.value = foldDirectives sem none (a1 ++ a2) := by
  have e1 := drain_spec sem a1 _ s1 h1
  have e2 := drain_spec sem (s1.remaining ++ a2) _ s2 h2
  simp only [FlagSt.parse] at e1 e2
  rw [e1.2.2] at e2
  simp only [List.nil_append] at e1 e2
  refine ⟨by rw [e2.1, e1.1], ?_⟩
  rw [e2.2.1, e1.2.1]
  -- fold over an append = fold of the second list from the fold of the first
  have fold_append : ∀ (l1 l2 : List Directive) (v : Option C),
      foldDirectives sem (foldDirectives sem v l1) l2 = foldDirectives sem v (l1 ++ l2) := by
    intro l1
    induction l1 with
    | nil => intro l2 v; rfl
    | cons d r ih => intro l2 v; cases d <;> simp [foldDirectives, ih]
  exact fold_append a1 a2 none

/-- Any number of `parse` calls before one `value`: the queue is the concatenation. -/
theorem C18_parse_accumulates (st : FlagSt C) (a1 a2 : List Directive) :
    ((st.parse a1).parse a2).remaining = st.remaining ++ a1 ++ a2 := by
  simp [FlagSt.parse, List.append_assoc]

/-- The first directive must provide the base configuration. -/
theorem C18_first_must_be_config (sem : Semantics C) (a : String) (r : List Directive) :
    (({} : FlagSt C).parse (.set a :: r)).getValue sem = .error .firstMustBeConfig := by
  simp [FlagSt.parse, FlagSt.getValue, FlagSt.drain, FlagSt.apply1]

/-- Non-vacuity: a command line with a base config, two overrides and a fiddler drains. -/
example : ∃ s : FlagSt (List String),
    (({} : FlagSt (List String)).parse [.config "b", .set "x=1", .fiddler "f", .set "y=2"]).getValue
      ⟨fun e => [e], fun c a => c ++ [a], fun c e => c ++ [e]⟩ = .ok s
      ∧ s.value = some ["b", "x=1", "f", "y=2"] := by
  refine ⟨_, rfl, rfl⟩

/-! ### The path grammar -/

open Paths

theorem pathStr_boundary (p : List Elem) (t : List Char) (h : pathStr p = .ok t) : Boundary t := by
  cases p with
  | nil => simp [pathStr] at h; subst h; exact .inl rfl
  | cons e r =>
    simp only [pathStr] at h
    split at h
    · rename_i a b ha hb
      cases h
      right
      cases e with
      | attr n => simp [code] at ha; subst ha; exact ⟨'.', _, rfl, .inl rfl⟩
      | index n => simp [code] at ha; subst ha; exact ⟨'[', _, rfl, .inr rfl⟩
      | key k =>
        cases k with
        | int n => simp [code] at ha; subst ha; exact ⟨'[', _, rfl, .inr rfl⟩
        | str s =>
          simp only [code] at ha
          split at ha
          · cases ha; exact ⟨'[', _, rfl, .inr rfl⟩
          · cases ha
    · cases h

/-- `parse_path` with enough fuel reads a printed path back, element by element. -/
theorem parseFuel_pathStr (p : List Elem) (hok : ∀ e ∈ p, e.ok) :
    ∀ (t : List Char) (fuel : Nat), pathStr p = .ok t → p.length ≤ fuel →
      parseFuel fuel t = .ok (p.map Elem.toParsed) := by
  induction p with
  | nil =>
    intro t fuel h _
    simp [pathStr] at h; subst h
    cases fuel <;> rfl
  | cons e r ih =>
    intro t fuel h hf
    simp only [pathStr] at h
    split at h
    · rename_i a b ha hb
      cases h
      obtain ⟨fuel', rfl⟩ : ∃ f, fuel = f + 1 := ⟨fuel - 1, by simp at hf; omega⟩
      have hs := scan_code e a b ha (hok e (by simp)) (pathStr_boundary r b hb)
      have hne : a ++ b ≠ [] := by
        cases e with
        | attr n => simp [code] at ha; subst ha; simp
        | index n => simp [code] at ha; subst ha; simp
        | key k =>
          cases k with
          | int n => simp [code] at ha; subst ha; simp
          | str s =>
            simp only [code] at ha
            split at ha
            · cases ha; simp
            · cases ha
      obtain ⟨c, cs, hcs⟩ := List.exists_cons_of_ne_nil hne
      rw [hcs] at hs ⊢
      simp only [parseFuel, hs]
      rw [ih (fun x hx => hok x (by simp [hx])) b fuel' hb (by simp at hf; omega)]
      rfl
    · cases h

theorem pathStr_length (p : List Elem) (t : List Char) (h : pathStr p = .ok t) : p.length ≤ t.length := by
  induction p generalizing t with
  | nil => simp
  | cons e r ih =>
    simp only [pathStr] at h
    split at h
    · rename_i a b ha hb
      cases h
      have := ih b hb
      have ha1 : 1 ≤ a.length := by
        cases e with
        | attr n => simp [code] at ha; subst ha; simp
        | index n => simp [code] at ha; subst ha; simp
        | key k =>
          cases k with
          | int n => simp [code] at ha; subst ha; simp
          | str s =>
            simp only [code] at ha
            split at ha
            · cases ha; simp
            · cases ha
      simp only [List.length_cons, List.length_append]
      omega
    · cases h

/-- Within the property's scope every path can be printed (the model never answers
    `unsupported` there): the hypotheses of the theorems below are satisfiable. -/
theorem C18_printable (p : List Elem) (hok : ∀ e ∈ p, e.ok) : ∃ t, pathStr p = .ok t := by
  induction p with
  | nil => exact ⟨[], rfl⟩
  | cons e r ih =>
    obtain ⟨a, ha⟩ := code_ok e (hok e (by simp))
    obtain ⟨b, hb⟩ := ih (fun x hx => hok x (by simp [hx]))
    exact ⟨a ++ b, by simp [pathStr, ha, hb]⟩

/-- **Printed paths resolve**: the text `printing._path_str` prints for a non-empty path
    (attribute names that are words, quote-free string keys, non-negative int keys and list
    indices) is accepted by the override parser `absl_flags.utils.parse_path`, and parses to the
    very same sequence of steps (an `Index` comes back as the `Key` of the same int, which
    subscripts a list the same way). -/
theorem C18_printed_path_parses_back (p : List Elem) (t : List Char) (hne : p ≠ [])
    (hok : ∀ e ∈ p, e.ok) (h : printed p = .ok t) :
    parsePath (reDot t) = .ok (p.map Elem.toParsed) := by
  obtain ⟨e, r, rfl⟩ := List.exists_cons_of_ne_nil hne
  obtain ⟨full, hfull⟩ := C18_printable (e :: r) hok
  have main : parsePath full = .ok ((e :: r).map Elem.toParsed) :=
    parseFuel_pathStr (e :: r) hok full full.length hfull (pathStr_length _ _ hfull)
  have hredot : reDot t = full := by
    unfold printed at h
    rw [hfull] at h
    simp only [Res.ok.injEq] at h
    subst h
    cases e with
    | attr n =>
      obtain ⟨hn, hw⟩ := hok (.attr n) (by simp)
      obtain ⟨c, cs, rfl⟩ := List.exists_cons_of_ne_nil hn
      simp only [pathStr, code] at hfull
      split at hfull
      · rename_i a b ha hb
        cases ha; cases hfull
        have hc := hw c (by simp)
        have h1 : c ≠ '[' := by intro e; subst e; revert hc; decide
        have h2 : c ≠ '.' := by intro e; subst e; revert hc; decide
        simp only [startsWithAttr, if_true, List.cons_append, List.tail_cons]
        unfold reDot
        split
        · rename_i heq; cases heq; exact absurd rfl h1
        · rename_i heq; cases heq; exact absurd rfl h2
        · rfl
      · cases hfull
    | index n =>
      simp only [pathStr, code] at hfull
      split at hfull
      · rename_i a b ha hb; cases ha; cases hfull; rfl
      · cases hfull
    | key k =>
      have hb := pathStr_boundary _ _ hfull
      rcases hb with hb | ⟨c, r', hb, hc⟩
      · have := pathStr_length _ _ hfull
        rw [hb] at this; simp at this
      · subst hb
        have : c = '[' := by
          simp only [pathStr] at hfull
          split at hfull
          · rename_i a b ha hb2
            cases k with
            | int n => simp [code] at ha; subst ha; simp at hfull; exact hfull.1.symm
            | str s =>
              simp only [code] at ha
              split at ha
              · cases ha; simp at hfull; exact hfull.1.symm
              · cases ha
          · cases hfull
        subst this
        rfl
  rw [hredot]
  exact main

/-- **A printed path names one position**: two paths within scope that print the same text are
    the same sequence of steps - no leaf can be listed under a text that resolves to another. -/
theorem C18_printed_path_injective (p q : List Elem) (t : List Char) (hp : p ≠ []) (hq : q ≠ [])
    (okp : ∀ e ∈ p, e.ok) (okq : ∀ e ∈ q, e.ok) (h1 : printed p = .ok t) (h2 : printed q = .ok t) :
    p.map Elem.toParsed = q.map Elem.toParsed := by
  have a := C18_printed_path_parses_back p t hp okp h1
  have b := C18_printed_path_parses_back q t hq okq h2
  rw [a] at b
  exact (Res.ok.inj b)

theorem code_no_eq (e : Elem) (a : List Char) (ha : code e = .ok a) (hok : e.ok) (hne : e.noEq) :
    ∀ x ∈ a, x ≠ '=' := by
  have int_case : ∀ n, ∀ x ∈ ('[' :: natRepr n ++ [']']), x ≠ '=' := by
    intro n x hx
    simp only [List.cons_append, List.mem_cons, List.mem_append, List.not_mem_nil, or_false] at hx
    rcases hx with rfl | hx | rfl
    · decide
    · exact (digit_facts x (natRepr_digits n x hx)).2.2.1
    · decide
  match e, hok, hne with
  | .attr n, ⟨_, hw⟩, _ =>
    simp only [code] at ha; cases ha
    intro x hx
    simp only [List.mem_cons] at hx
    rcases hx with rfl | hx
    · decide
    · exact word_ne_eq x (hw x hx)
  | .index n, _, _ => simp only [code] at ha; cases ha; exact int_case n
  | .key (.int n), _, _ => simp only [code] at ha; cases ha; exact int_case n
  | .key (.str s), _, hs =>
    simp only [code] at ha
    split at ha
    · rename_i x hx
      cases ha
      intro y hy
      simp only [List.cons_append, List.mem_cons, List.mem_append, List.not_mem_nil, or_false] at hy
      rcases hy with rfl | rfl | hy | rfl | rfl
      · decide
      · decide
      · exact escape_no_eq s x hx hs y hy
      · decide
      · decide
    · cases ha

theorem pathStr_no_eq (p : List Elem) (t : List Char) (h : pathStr p = .ok t)
    (hok : ∀ e ∈ p, e.ok) (hne : ∀ e ∈ p, e.noEq) : ∀ x ∈ t, x ≠ '=' := by
  induction p generalizing t with
  | nil => simp [pathStr] at h; subst h; simp
  | cons e r ih =>
    simp only [pathStr] at h
    split at h
    · rename_i a b ha hb
      cases h
      intro x hx
      rcases List.mem_append.mp hx with h1 | h1
      · exact code_no_eq e a ha (hok e (by simp)) (hne e (by simp)) x h1
      · exact ih b hb (fun y hy => hok y (by simp [hy])) (fun y hy => hne y (by simp [hy])) x h1
    · cases h

/-- **The override is split where it was joined**: for a printed path whose string keys are
    `=`-free, `set_value`'s `assignment.split('=', 1)` of `path=value` returns exactly the
    printed path and the value text, whatever the value text contains (further `=` included). -/
theorem C18_assignment_splits (p : List Elem) (t v : List Char) (hok : ∀ e ∈ p, e.ok)
    (hne : ∀ e ∈ p, e.noEq) (h : printed p = .ok t) : splitAssign (t ++ '=' :: v) = some (t, v) := by
  have hfree : ∀ x ∈ t, x ≠ '=' := by
    unfold printed at h
    split at h
    · rename_i s hs
      have hs_free := pathStr_no_eq p s hs hok hne
      simp only [Res.ok.injEq] at h
      subst h
      intro x hx
      split at hx
      · exact hs_free x (List.mem_of_mem_tail hx)
      · exact hs_free x hx
    · rename_i hnot
      exact absurd h (hnot t)
  have := span_run (· != '=') t ('=' :: v) (fun c hc => by simpa using hfree c hc)
    (.inr ⟨'=', v, rfl, by simp⟩)
  simp [splitAssign, this]

/-- Non-vacuity: a path with every kind of element is within scope, prints, and parses back:
    `p[10]['k 1\\x'][0].q_1`. -/
example :
    let p : List Elem := [.attr ['p'], .index 10, .key (.str ['k', ' ', '1', '\\', 'x']), .key (.int 0),
                          .attr ['q', '_', '1']]
    (∀ e ∈ p, e.ok) ∧ (∀ e ∈ p, e.noEq) ∧
      printed p = .ok ['p', '[', '1', '0', ']', '[', '\'', 'k', ' ', '1', '\\', '\\', 'x', '\'', ']',
                       '[', '0', ']', '.', 'q', '_', '1'] := by
  refine ⟨?_, ?_, ?_⟩
  · intro e he
    simp only [List.mem_cons, List.not_mem_nil, or_false] at he
    rcases he with rfl | rfl | rfl | rfl | rfl
    · exact ⟨by decide, by decide⟩
    · trivial
    · intro c hc
      unfold keyChar
      revert c; decide
    · trivial
    · exact ⟨by decide, by decide⟩
  · intro e he
    simp only [List.mem_cons, List.not_mem_nil, or_false] at he
    rcases he with rfl | rfl | rfl | rfl | rfl <;> first | trivial | (intro c hc; revert c; decide)
  · have h10 : natRepr 10 = ['1', '0'] := by rw [natRepr]; simp; rw [natRepr]; simp [digitChar]
    have h0 : natRepr 0 = ['0'] := by rw [natRepr]; simp [digitChar]
    simp [printed, pathStr, code, escape, escapeChar, plainChar, startsWithAttr, h10, h0]

/-- Outside the scope the guarantee genuinely fails (why the property restricts keys): a key
    containing a quote prints to a text, `['it's']`, that does not parse back. -/
example : parsePath ['[', '\'', 'i', 't', '\'', 's', '\'', ']'] = .error := by decide

/-- Leading zeros: `[007]` is rejected (`literal_eval` raises), `[00]` is index 0. -/
example : parsePath ['[', '0', '0', '7', ']'] = .error ∧
    parsePath ['[', '0', '0', ']'] = .ok [.key (.int 0)] := by
  constructor <;> decide

/-- Table obligation (regenerated from the source on every run): the grammar `parsePath` scans is
    the one `daglish_extensions._PATH_PART` is compiled from, and `set_value` cuts `path=value`
    with `split('=', 1)`, which is what `splitAssign` models. -/
theorem C18_grammar_source_obligation :
    Tables.pathPartAlternatives =
      ["\\.(?P<attr_name>[\\w_]+)", "\\[(?P<key>\\d+|'[^']*'|\\\"[^\\\"]*\\\")\\]"] ∧
    Tables.setValueSplit = ["split", "=", "1"] := by decide

end Fiddle
