import FiddleModel.Model.Graph
namespace Fiddle
theorem C02_placeholder : True := trivial
end Fiddle
