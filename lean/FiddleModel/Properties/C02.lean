/-
C02 — one invocation per Buildable instance; built graph mirrors config graph.

The model is `build` (`Model/Graph.lean`): `MemoizedTraversal.apply` specialised to
`building.py::_build`, over heaps in which object identity is the heap index. `st.log` is the
invocation log (ids of Buildables whose callable ran, in order), `st.memo` the traversal memo.
All theorems are about every heap, every root and every failure set; the invariant behind them
is `BuildSt.Inv` (`Lemmas/Build.lean`), proved by induction on the traversal.

Carried by the correspondence check only: "separate fdl.build calls share no built objects"
(the model allocates a fresh result heap per `build`, so the statement is definitional there)
and the pinning of memo keys against `id` reuse (object identity is abstract in the model).
-/
import FiddleModel.Lemmas.BuildMirror
import FiddleModel.Lemmas.Basic
import FiddleModel.Lemmas.BuildTotal
import FiddleModel.Lemmas.CallEval
import FiddleModel.Lemmas.Traverse

namespace Fiddle

private theorem build_inv {h : Heap} {fails : List Nat} {root : GVal} {r : BVal} {st : BuildSt}
    (hb : build h fails root = .ok (r, st)) : BuildSt.Step h {} st ∧ Memoized st root r :=
  buildVal_step h fails _ root [] {} r st hb (BuildSt.inv_init h)

/-- No Buildable instance is invoked twice. -/
theorem C02_invoked_at_most_once (h : Heap) (fails : List Nat) (root : GVal) (r : BVal)
    (st : BuildSt) (hb : build h fails root = .ok (r, st)) : st.log.Nodup :=
  (build_inv hb).1.inv.nodup

/-- Every Buildable instance reachable from the root is invoked. -/
theorem C02_every_reachable_invoked (h : Heap) (fails : List Nat) (i : Nat) (r : BVal)
    (st : BuildSt) (hb : build h fails (.ref i) = .ok (r, st))
    (k : Nat) (ok : GObj) (hr : Reach h i k) (hk : h[k]? = some ok) (hc : ok.kind = .cfg) :
    k ∈ st.log := by
  obtain ⟨s, m⟩ := build_inv hb
  have hm : (memoGet st.memo i).isSome := by rw [m i rfl]; rfl
  exact s.inv.cfgLogged k ok hk hc (s.inv.reach_memoized hr hm)

/-- ... exactly once: the log, as a list, contains every reachable Buildable once. -/
theorem C02_exactly_once (h : Heap) (fails : List Nat) (i : Nat) (r : BVal)
    (st : BuildSt) (hb : build h fails (.ref i) = .ok (r, st))
    (k : Nat) (ok : GObj) (hr : Reach h i k) (hk : h[k]? = some ok) (hc : ok.kind = .cfg) :
    st.log.count k = 1 := by
  rw [(C02_invoked_at_most_once h fails _ r st hb).count]
  simp [C02_every_reachable_invoked h fails i r st hb k ok hr hk hc]

/-- An invocation happens after the invocation of every Buildable it depends on, directly or
    through any nesting of containers and other Buildables. -/
theorem C02_dependencies_first (h : Heap) (fails : List Nat) (root : GVal) (r : BVal)
    (st : BuildSt) (hb : build h fails root = .ok (r, st))
    (pre : List Nat) (i : Nat) (post : List Nat) (hl : st.log = pre ++ i :: post)
    (o : GObj) (ho : h[i]? = some o) (pv : PElem × GVal) (hpv : pv ∈ o.children) (j : Nat)
    (hj : pv.2 = .ref j) (k : Nat) (ok : GObj) (hr : Reach h j k) (hk : h[k]? = some ok)
    (hc : ok.kind = .cfg) : k ∈ pre :=
  (build_inv hb).1.inv.ordered pre i post hl o ho pv hpv j hj k ok hr hk hc

/-- A second reference to an object that has been built receives the memoized result and
    changes nothing: no invocation, no new result object. (All object kinds: Buildables, lists,
    tuples, dicts.) -/
theorem C02_same_reference_same_result (h : Heap) (fails : List Nat) (fuel : Nat) (i : Nat)
    (path : Path) (st : BuildSt) (r : BVal) (hm : memoGet st.memo i = some r) :
    buildVal h fails (fuel + 1) (.ref i) path st = .ok (r, st) := by
  simp [buildVal, hm]

/-- The result returned for an object is what the memo holds for it from then on. -/
theorem C02_result_memoized (h : Heap) (fails : List Nat) (fuel : Nat) (i : Nat) (path : Path)
    (st st' st'' : BuildSt) (r : BVal) (hi : st.Inv h)
    (hb : buildVal h fails fuel (.ref i) path st = .ok (r, st'))
    (later : BuildSt.Step h st' st'') : memoGet st''.memo i = some r :=
  later.memoMono i r ((buildVal_step h fails fuel _ _ _ _ _ hb hi).2 i rfl)

/-- Distinct instances give distinct built objects, whether or not they are equal. -/
theorem C02_distinct_instances_distinct_results (h : Heap) (fails : List Nat) (root : GVal)
    (r : BVal) (st : BuildSt) (hb : build h fails root = .ok (r, st))
    (i j a : Nat) (hi : memoGet st.memo i = some (.built a))
    (hj : memoGet st.memo j = some (.built a)) : i = j :=
  (build_inv hb).1.inv.inj i j a hi hj

/-- Built results are objects of this build's own result heap. -/
theorem C02_results_in_own_heap (h : Heap) (fails : List Nat) (root : GVal)
    (r : BVal) (st : BuildSt) (hb : build h fails root = .ok (r, st))
    (i a : Nat) (hi : memoGet st.memo i = some (.built a)) : a < st.out.length :=
  (build_inv hb).1.inv.fresh i a hi

/-- The invocation log only grows during a traversal (what was invoked stays invoked). -/
theorem C02_log_append_only (h : Heap) (fails : List Nat) (fuel : Nat) (v : GVal) (path : Path)
    (st st' : BuildSt) (r : BVal) (hi : st.Inv h)
    (hb : buildVal h fails fuel v path st = .ok (r, st')) : st.log <+: st'.log :=
  (buildVal_step h fails fuel _ _ _ _ _ hb hi).1.logPrefix

/-- The built graph mirrors the config graph: every built object is the image of exactly one
    configuration object — a Buildable became one call of its callable on the images of its
    arguments (bound as `bindBuilt` = C01 says), a list / tuple / dict became a container of
    the same kind holding the images of its elements under the same keys. -/
theorem C02_built_graph_mirrors_config_graph (h : Heap) (fails : List Nat) (root : GVal)
    (r : BVal) (st : BuildSt) (hb : build h fails root = .ok (r, st)) : Mirror h st :=
  build_mirror h fails root r st hb

/-- ... and the value returned for the root is the image of the root. -/
theorem C02_root_result (h : Heap) (fails : List Nat) (i : Nat) (r : BVal) (st : BuildSt)
    (hb : build h fails (.ref i) = .ok (r, st)) : r = resultOf st.memo (.ref i) := by
  have := (buildVal_step h fails _ (.ref i) [] {} r st hb (BuildSt.inv_init h)).2 i rfl
  simp [resultOf, this]

/-- The theorems above are about builds that return; this one says when they do: on every
    acyclic configuration (children before parents in the heap) all of whose calls bind and none
    of whose callables raises, `fdl.build` returns — no spurious cycle error, whatever the
    sharing, depth or size. (`build` passes `|heap| + 1` as fuel: it suffices.) -/
theorem C02_build_returns (h : Heap) (wf : h.WellFormed) (hb : h.Binds) (root : GVal)
    (hr : ∀ i, root = .ref i → i < h.length) : ∃ r st, build h [] root = .ok (r, st) :=
  build_total h wf hb root hr

/-! ## Non-vacuity: a Buildable referenced twice through a list is invoked once and the list
    holds the same built object twice. -/

private def leaf : GObj := { kind := .cfg, ty := "leaf", sig := [] }
private def shared2 : Heap :=
  [ leaf, { kind := .list, children := [(.index 0, .ref 0), (.index 1, .ref 0)] } ]
private theorem leaf_binds : bindBuilt leaf [] = .ok ([], [], []) := by decide
@[simp] private theorem leaf_children : leaf.children = [] := rfl
@[simp] private theorem leaf_kind : leaf.kind = .cfg := rfl
@[simp] private theorem leaf_ty : leaf.ty = "leaf" := rfl

example : ∃ st, build shared2 [] (.ref 1) = .ok (.built 1, st) ∧ st.log = [0] ∧
    st.out.length = 2 ∧
    st.out[1]? = some (.container .list "" [(.index 0, .built 0), (.index 1, .built 0)]) := by
  simp [build, shared2, buildVal, buildChildren, memoGet, leaf_binds]

/-- The hypotheses of `C02_build_returns` are met by that configuration (so it builds). -/
example : shared2.WellFormed ∧ shared2.Binds ∧ ∃ r st, build shared2 [] (.ref 1) = .ok (r, st) := by
  have wf : shared2.WellFormed := Heap.wellFormed_of_B shared2 (by decide)
  have hb : shared2.Binds := by
    intro o ho hk vals
    simp [shared2] at ho
    rcases ho with rfl | rfl
    · exact bindBuilt_ok_indep leaf [] vals _ leaf_binds
    · cases hk
  exact ⟨wf, hb, C02_build_returns shared2 wf hb (.ref 1) (by intro i hi; cases hi; simp [shared2])⟩

end Fiddle
