import FiddleModel.Model.Graph
namespace Fiddle
theorem C17_placeholder : True := trivial
end Fiddle
