/-
C17 — read-only and copy-returning APIs never modify their input.

What a theorem can and cannot say here. The APIs of the list are imperative Python functions;
the property is the *absence* of writes to the objects of the configuration passed in. In the
heap model an API call has one of two effects on the heap of configuration objects:
  * `readOnly`  — it allocates nothing that the caller can reach and writes nothing;
  * `allocOnly` — it returns a new or copied configuration: new objects are appended, existing
                  objects are not written.
Which effect each entry point of fiddle has is NOT proved: it is checked by the correspondence
run, which encodes the configuration before and after every call and compares it with
`applyEffect` (i.e. with the unchanged heap). What is proved is that these two effects are
sufficient for the property as stated — the configuration "unchanged in callables, arguments,
tags and sharing structure": every object, and every path query from the configuration's
objects, answers exactly as before, also after the caller goes on to edit the returned copy.
The per-API models that exist (build: C02, traversals: C08, select: C15, ==: C06, copies: C07,
list_tags: C14) are functions of the heap that return results, not heaps, so they have the
`readOnly` effect by construction.
-/
import FiddleModel.Lemmas.CopyL
import FiddleModel.Lemmas.CodegenL

namespace Fiddle

inductive Effect | readOnly | allocOnly
deriving DecidableEq, Repr

/-- The heap after an API call with the given effect (`new` = the objects it allocated). -/
def applyEffect (e : Effect) (h new : Heap) : Heap :=
  match e with
  | .readOnly => h
  | .allocOnly => h ++ new

/-- Every object of the input is unchanged: same kind, callable, arguments, tags. -/
theorem C17_objects_unchanged (e : Effect) (h new : Heap) (i : Nat) (hi : i < h.length) :
    (applyEffect e h new)[i]? = h[i]? := by
  cases e with
  | readOnly => rfl
  | allocOnly => simp [applyEffect, List.getElem?_append_left hi]

/-- Every path from the input leads to the same value as before (arguments and sharing
    structure as observed through paths are unchanged). -/
theorem C17_paths_unchanged (e : Effect) (h new : Heap) (wf : h.WellFormed) (i : Nat)
    (hi : i < h.length) (p : Path) :
    followPath (applyEffect e h new) (.ref i) p = followPath h (.ref i) p :=
  followPath_agree h _ wf h.length (fun k hk => C17_objects_unchanged e h new k hk) p (.ref i)
    (by intro k hk; cases hk; exact hi)

/-- ... and this stays so whatever the caller then does to the objects the API returned. -/
theorem C17_unchanged_after_editing_result (e : Effect) (h new h2 : Heap) (wf : h.WellFormed)
    (hedit : ∀ k, k < h.length → h2[k]? = (applyEffect e h new)[k]?) (i : Nat) (hi : i < h.length)
    (p : Path) : followPath h2 (.ref i) p = followPath h (.ref i) p :=
  followPath_agree h h2 wf h.length
    (fun k hk => (hedit k hk).trans (C17_objects_unchanged e h new k hk)) p (.ref i)
    (by intro k hk; cases hk; exact hi)

/-- A sequence of such calls has the same guarantee. -/
theorem C17_sequences (calls : List (Effect × Heap)) (h : Heap) (i : Nat) (hi : i < h.length) :
    (calls.foldl (fun h c => applyEffect c.1 h c.2) h)[i]? = h[i]? := by
  induction calls generalizing h with
  | nil => rfl
  | cons c cs ih =>
    simp only [List.foldl_cons]
    have hlen : i < (applyEffect c.1 h c.2).length := by
      cases c.1 <;> simp [applyEffect] <;> omega
    rw [ih _ hlen, C17_objects_unchanged c.1 h c.2 i hi]

/-! ## The heap-transforming operations of the model have these effects

For the operations whose model *is* a heap transformer the effect is a theorem, not an
observation: deep copies, shallow copies / casts, and the execution of generated code (the way
a configuration printed by a code generator comes back) only append to the heap. -/

theorem C17_deepcopy_is_alloc_only (h : Heap) :
    h.deepcopy = applyEffect .allocOnly h (h.map (shiftObj h.length)) := rfl

theorem C17_shallow_copy_is_alloc_only (h : Heap) (i : Nat) (bk : Option String) :
    ∃ new, h.shallowCopy i bk = applyEffect .allocOnly h new := by
  unfold Heap.shallowCopy applyEffect
  cases h[i]? with
  | none => exact ⟨[], by simp⟩
  | some o => exact ⟨_, rfl⟩

theorem C17_generated_code_is_alloc_only (e : CExpr) (env : CEnv) (h : Heap) (v : GVal) (h' : Heap)
    (he : e.eval env h = some (v, h')) : ∃ new, h' = applyEffect .allocOnly h new := by
  obtain ⟨t, rfl⟩ := CExpr.eval_prefix e env h v h' he
  exact ⟨t, rfl⟩

example : ((applyEffect .allocOnly [{ kind := .list }] [{ kind := .dict }])[0]?).map (·.kind) =
    some .list := by decide

end Fiddle
