import FiddleModel.Model.ArgStore
namespace Fiddle
theorem C14_placeholder : True := trivial
end Fiddle
