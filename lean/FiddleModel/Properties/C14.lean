/-
C14 — tags select exactly the tagged arguments and survive every transformation.

Two layers of the model:
  * graph layer (`Model/Select.lean`): `Heap.setTagged` (= `set_tagged` = tag selection
    `.replace`), `listTags`, `taggedKeys` over every heap and every tag hierarchy `sub`;
  * ArgStore layer (`Model/ArgStore.lean`): `add_tag`, `remove_tag`, `clear_tags` on one
    Buildable, with the history log.
Survival of tags under copies / casts and under diff application is proved through the models
of C07, C09 and C10; the expansion and build of `TaggedValue` are carried by the
correspondence check and the oracle.
-/
import FiddleModel.Lemmas.SelectL
import FiddleModel.Lemmas.History
import FiddleModel.Lemmas.CopyL
import FiddleModel.Lemmas.DiffMain
import FiddleModel.Properties.C09

namespace Fiddle

/-- The arguments selected by tag `T`: those whose tag set contains `T` or a subclass of it. -/
theorem C14_tagged_keys (sub : Nat → Nat → Bool) (T : Nat) (o : GObj) (key : Key) :
    key ∈ taggedKeys sub T o ↔ ∃ ts, (key, ts) ∈ o.tags ∧ ∃ t ∈ ts, sub t T = true := by
  simp only [taggedKeys, List.mem_map, List.mem_filter, List.any_eq_true]
  constructor
  · rintro ⟨⟨k, ts⟩, ⟨hm, t, ht, hs⟩, rfl⟩; exact ⟨ts, hm, t, ht, hs⟩
  · rintro ⟨ts, hm, t, ht, hs⟩; exact ⟨(key, ts), ⟨hm, t, ht, hs⟩, rfl⟩

/-- After `set_tagged(root, tag=T, value=v)` every selected argument of every reachable
    Buildable holds `v` ... -/
theorem C14_set_tagged_hits (h : Heap) (root : GVal) (sub : Nat → Nat → Bool) (T : Nat) (v : GVal)
    (k : Nat) (hk : k ∈ reachableIds h root) (o : GObj) (ho : h[k]? = some o) (hc : o.kind = .cfg)
    (key : Key) (hkey : key ∈ taggedKeys sub T o) :
    ∃ o', (h.setTagged root sub T v)[k]? = some o' ∧ lk o'.children (pelemOfKey key) = some v := by
  refine ⟨_, by rw [setTagged_get, ho]; rfl, ?_⟩
  have hin : (reachableIds h root).contains k = true := by simpa using hk
  simp only [hin, hc, beq_self_eq_true, Bool.and_self, if_true]
  have := lookup_upsertAll_const ((taggedKeys sub T o).map pelemOfKey) v o.children
    (pelemOfKey key) (List.mem_map_of_mem hkey)
  rw [List.map_map] at this
  exact this

/-- ... no other argument of it has changed ... -/
theorem C14_set_tagged_other_args (h : Heap) (root : GVal) (sub : Nat → Nat → Bool) (T : Nat)
    (v : GVal) (k : Nat) (o : GObj) (ho : h[k]? = some o) (q : PElem)
    (hq : ∀ key ∈ taggedKeys sub T o, pelemOfKey key ≠ q) :
    ∃ o', (h.setTagged root sub T v)[k]? = some o' ∧ lk o'.children q = lk o.children q := by
  refine ⟨_, by rw [setTagged_get, ho]; rfl, ?_⟩
  dsimp only
  split
  · apply lookup_upsertAll_other
    intro kv hkv
    simp only [List.mem_map] at hkv
    obtain ⟨key, hkey, rfl⟩ := hkv
    exact hq key hkey
  · rfl

/-- ... no tag, callable, type or signature has changed anywhere ... -/
theorem C14_set_tagged_keeps_tags (h : Heap) (root : GVal) (sub : Nat → Nat → Bool) (T : Nat)
    (v : GVal) (k : Nat) (o : GObj) (ho : h[k]? = some o) :
    ∃ o', (h.setTagged root sub T v)[k]? = some o' ∧ o'.tags = o.tags ∧ o'.ty = o.ty ∧
      o'.kind = o.kind ∧ o'.bk = o.bk ∧ o'.sig = o.sig ∧ o'.defaults = o.defaults := by
  refine ⟨_, by rw [setTagged_get, ho]; rfl, ?_⟩
  dsimp only
  split <;> exact ⟨rfl, rfl, rfl, rfl, rfl, rfl⟩

/-- ... and objects that are not reachable Buildables are untouched. -/
theorem C14_set_tagged_frame (h : Heap) (root : GVal) (sub : Nat → Nat → Bool) (T : Nat) (v : GVal)
    (k : Nat) (hk : k ∉ reachableIds h root ∨ ∀ o, h[k]? = some o → o.kind ≠ .cfg) :
    (h.setTagged root sub T v)[k]? = h[k]? := by
  rw [setTagged_get]
  cases ho : h[k]? with
  | none => rfl
  | some o =>
    rcases hk with hk | hk
    · simp [hk]
    · have := hk o ho
      simp [this]

/-- `list_tags` is exactly the union of the tag sets over the reachable Buildables. -/
theorem C14_list_tags_exact (h : Heap) (root : GVal) (t : Nat) :
    t ∈ listTags h root ↔ ∃ i ∈ reachableIds h root, ∃ o, h[i]? = some o ∧ o.kind = .cfg ∧
      ∃ kt ∈ o.tags, t ∈ kt.2 := by
  simp only [listTags, List.mem_eraseDups, List.mem_flatMap]
  constructor
  · rintro ⟨i, hi, ht⟩
    cases ho : h[i]? with
    | none => simp [ho] at ht
    | some o =>
      simp only [ho] at ht
      by_cases hc : o.kind = .cfg
      · simp only [hc, beq_self_eq_true, if_true, List.mem_flatMap] at ht
        exact ⟨i, hi, o, ho, hc, ht⟩
      · simp [hc] at ht
  · rintro ⟨i, hi, o, ho, hc, kt, hkt, ht⟩
    refine ⟨i, hi, ?_⟩
    simp only [ho, hc, beq_self_eq_true, if_true, List.mem_flatMap]
    exact ⟨kt, hkt, ht⟩

/-- ... without duplicates. -/
theorem C14_list_tags_nodup (h : Heap) (root : GVal) : (listTags h root).Nodup := by
  unfold listTags
  exact nodup_eraseDups _

/-! ## Tag edits on one Buildable -/

/-- `add_tag` adds the tag to that argument, leaves the arguments and every other argument's
    tags alone. -/
theorem C14_add_tag (s : Sig) (c c' : Cfg) (k : Key) (t : Nat) (h : c.addTag s k t = .ok c') :
    ∃ key, Cfg.tagKey s c k = .ok key ∧ t ∈ c'.tagsOf key ∧ c'.args = c.args ∧
      (∀ u ∈ c.tagsOf key, u ∈ c'.tagsOf key) ∧
      ∀ k', key ≠ k' → c'.tags.get? k' = c.tags.get? k' := by
  unfold Cfg.addTag at h
  split at h
  · cases h
  · rename_i key hk
    cases h
    refine ⟨key, hk, ?_, ?_, ?_, ?_⟩
    · simp only [Cfg.tagsOf, log_tags, Dict.get?_set_same, Option.getD_some]
      unfold tagInsert; split
      · rename_i hc; simpa using hc
      · simp
    · simp [log_args]
    · intro u hu
      simp only [Cfg.tagsOf, log_tags, Dict.get?_set_same, Option.getD_some]
      unfold tagInsert; split
      · exact hu
      · exact List.mem_append_left _ hu
    · intro k' hne
      simp only [log_tags]
      exact Dict.get?_set_other _ _ _ _ hne

/-- `remove_tag` removes exactly that tag; removing a tag that is not there is an error. -/
theorem C14_remove_tag (s : Sig) (c c' : Cfg) (k : Key) (t : Nat)
    (h : c.removeTag s k t = .ok c') :
    ∃ key, Cfg.tagKey s c k = .ok key ∧ t ∈ c.tagsOf key ∧ t ∉ c'.tagsOf key ∧ c'.args = c.args ∧
      (∀ u ∈ c.tagsOf key, u ≠ t → u ∈ c'.tagsOf key) ∧
      ∀ k', key ≠ k' → c'.tags.get? k' = c.tags.get? k' := by
  unfold Cfg.removeTag at h
  split at h
  · cases h
  · rename_i key hk
    split at h
    · cases h
    · rename_i hc
      cases h
      refine ⟨key, hk, by simpa using hc, ?_, by simp [log_args], ?_, ?_⟩
      · simp [Cfg.tagsOf, log_tags, Dict.get?_set_same]
      · intro u hu hne
        simp only [Cfg.tagsOf, log_tags, Dict.get?_set_same, Option.getD_some, List.mem_filter]
        exact ⟨hu, by simpa using hne⟩
      · intro k' hne
        simp only [log_tags]
        exact Dict.get?_set_other _ _ _ _ hne

/-- `clear_tags` empties that argument's tag set and nothing else. -/
theorem C14_clear_tags (s : Sig) (c c' : Cfg) (k : Key) (h : c.clearTags s k = .ok c') :
    ∃ key, Cfg.tagKey s c k = .ok key ∧ c'.tagsOf key = [] ∧ c'.args = c.args ∧
      ∀ k', key ≠ k' → c'.tags.get? k' = c.tags.get? k' := by
  unfold Cfg.clearTags at h
  split at h
  · cases h
  · rename_i key hk
    cases h
    refine ⟨key, hk, by simp [Cfg.tagsOf, log_tags, Dict.get?_set_same], by simp [log_args], ?_⟩
    intro k' hne
    simp only [log_tags]
    exact Dict.get?_set_other _ _ _ _ hne

/-! ## Tags survive transformations (through the models of C07 and C10) -/

/-- Deep copies (deepcopy, pickle round trip, deepcopy_with) carry every tag of every node. -/
theorem C14_tags_survive_deepcopy (h : Heap) (i : Nat) (o : GObj) (ho : h[i]? = some o) :
    ∃ o', (h.deepcopy)[i + h.length]? = some o' ∧ o'.tags = o.tags := by
  refine ⟨shiftObj h.length o, by rw [deepcopy_copy, ho]; rfl, rfl⟩

/-- Shallow copies and casts (copy, copy_with, cast) carry the tags of the copied node. -/
theorem C14_tags_survive_shallow_copy (h : Heap) (i : Nat) (bk : Option String) (o : GObj)
    (ho : h[i]? = some o) :
    ∃ o', (h.shallowCopy i bk)[h.length]? = some o' ∧ o'.tags = o.tags :=
  ⟨_, shallowCopy_new h i bk o ho, rfl⟩

/-- Applying `build_diff(old, new)` gives every argument exactly the tag set it has in `new`. -/
theorem C14_tags_after_apply_diff (sg : Diff.Sigs) (old new : Diff.Flat) (ho : old.Valid sg)
    (hn : new.Valid sg) :
    ∃ r, Diff.applyPhases sg ["DeleteValue", "RemoveTag", "ModifyValue", "SetValue", "AddTag"]
        (Diff.flatDiff old new) old = .ok r ∧ ∀ n t, t ∈ r.tagsOf n ↔ t ∈ new.tagsOf n := by
  obtain ⟨r, hr, _, _, ht⟩ := Diff.flat_roundtrip sg old new ho hn
  exact ⟨r, hr, ht⟩

/-- `dump_json` then `load_json` carry every tag of every node: loading recreates the dumped
    table (`C09_load_of_dump`), and wherever a path leads to a node of the input, the same path
    in the table leads to a node of the same callable with the same tag sets. -/
theorem C14_tags_survive_serialization (h : Heap) (wf : h.WellFormed)
    (hd : ∀ o ∈ h, o.defaults = []) (root r : GVal) (st : RbSt)
    (hb : rebuild h root = .ok (r, st)) (p : Path) (i : Nat) (o : GObj)
    (hp : followPath h root p = some (.ref i)) (ho : h[i]? = some o) :
    (straightLine st.out r).run = some (r, st.out) ∧
      ∃ j o', followPath st.out r p = some (.ref j) ∧ st.out[j]? = some o' ∧
        o'.tags = o.tags ∧ o'.ty = o.ty ∧ o'.bk = o.bk := by
  refine ⟨C09_load_of_dump h wf hd root r st hb, ?_⟩
  obtain ⟨s, m⟩ := rebuildVal_step h wf _ root {} r st hb (RbSt.inv_init h)
  have hmem := followPath_memoized h st s.inv p root (.ref i) m.2 hp i rfl
  obtain ⟨j, hj⟩ := Option.isSome_iff_exists.mp hmem
  obtain ⟨o2, ho2, hout⟩ := s.inv.mirror i j hj
  rw [ho] at ho2; cases ho2
  refine ⟨j, copyOf st.memo o, ?_, hout, rfl, rfl, rfl⟩
  rw [m.1, followPath_rebuilt h st s.inv p root m.2, hp]
  simp [imageOf, hj]

/-! ## Non-vacuity -/

private def g : Heap :=
  [ { kind := .cfg, ty := "f", bk := "Config", children := [(.attr "x", .atom "1"), (.attr "y", .atom "2")],
      tags := [(.name "x", [3]), (.name "z", [1])] },
    { kind := .cfg, ty := "g", bk := "Config", children := [(.attr "a", .ref 0)] } ]

/-- tag 3 is a subclass of tag 1: selecting by 1 hits `x` (tagged 3) and the unset `z` -/
example : ((g.setTagged (.ref 1) (fun a b => a == b || (a == 3 && b == 1)) 1 (.atom "V"))[0]?).map
      (·.children) = some [(.attr "x", .atom "V"), (.attr "y", .atom "2"), (.attr "z", .atom "V")] ∧
    listTags g (.ref 1) = [3, 1] := by decide

end Fiddle
