import FiddleModel.Model.Eq
namespace Fiddle
theorem C06_placeholder : True := trivial
end Fiddle
