/-
C06 — `==` on Buildables.

Model: `Model/Eq.lean` (`valEq`: Python `==` over argument values with defaults filled in;
`shareVisit`: the lockstep sharing walk of `_same_sharing_structure`; `buildableEq` = both).
`buildableEq` is a total Boolean function, so "never raises" is part of the model's type; the
correspondence check is what ties that to the code (an exception in the real `__eq__` is a
correspondence failure). History is not an input of the model at all (`GObj` has no history
field), which is the model's statement of "ignores assignment history"; the correspondence
check compares configurations with different histories against it.

Proved here: reflexivity on every well-formed heap (`Heap.EqWF`, decidable, checked by the
driver on every request), and the "distinguishes" clauses — different callables, Buildable
types, argument counts, and sharing structure each force `false`.
Also proved: the value comparison (`valEq`, everything except the sharing walk) is symmetric and
transitive — the dict / Buildable case by a pigeonhole argument over key sets.
The sharing walk is characterised declaratively (`Lemmas/ShareL.lean`): it succeeds exactly when
a one-to-one closed correspondence between the objects of the two configurations exists; the
walk's own result is such a correspondence (soundness) and, if one exists, the walk cannot fail
(completeness).  Symmetry of `==` follows, although the two directions visit children in
different orders; and `==` does not depend on the order in which dict entries or arguments were
inserted (`Reordered`).
Transitivity of `==` composes the two correspondences after restricting them to value-equal
pairs (`Lemmas/ShareTrans.lean`): the value comparison supplies "paired objects have the same
kind" and "paired children are internable together", which the composition needs.
So `==` is an equivalence relation on well-formed heaps: `C06_reflexive`, `C06_symmetric`,
`C06_transitive`.
Not proved (oracle only): congruence with `build`.
-/
import FiddleModel.Lemmas.EqSymm
import FiddleModel.Lemmas.ShareL
import FiddleModel.Lemmas.EqOrder
import FiddleModel.Lemmas.ShareTrans

namespace Fiddle

/-- Reflexive: every Buildable equals itself (value comparison and sharing walk both succeed). -/
theorem C06_reflexive (h : Heap) (wf : h.EqWF) (i : Nat) (o : GObj) (ho : h[i]? = some o) :
    buildableEq h h (.ref i) (.ref i) = true :=
  buildableEq_refl h wf i o ho

/-- The value part of `==` is symmetric ... -/
theorem C06_values_symmetric (h1 h2 : Heap) (w1 : h1.EqWF) (w2 : h2.EqWF) (fuel : Nat) (v w : GVal)
    (h : valEq h1 h2 fuel v w = true) : valEq h2 h1 fuel w v = true :=
  valEq_symm h1 h2 w1 w2 fuel v w h

/-- ... and transitive (three configurations, any heaps). -/
theorem C06_values_transitive (h1 h2 h3 : Heap) (fuel : Nat) (u v w : GVal)
    (e1 : valEq h1 h2 fuel u v = true) (e2 : valEq h2 h3 fuel v w = true) :
    valEq h1 h3 fuel u w = true :=
  valEq_trans h1 h2 h3 fuel u v w e1 e2

/-- Different callables, node types or Buildable subclasses are never equal. -/
theorem C06_distinguishes_callable_and_type (h1 h2 : Heap) (i j : Nat) (a b : GObj)
    (ha : h1[i]? = some a) (hb : h2[j]? = some b)
    (hne : a.kind ≠ b.kind ∨ a.ty ≠ b.ty ∨ a.bk ≠ b.bk) :
    buildableEq h1 h2 (.ref i) (.ref j) = false := by
  have : (a.kind != b.kind || a.ty != b.ty || a.bk != b.bk) = true := by
    rcases hne with h | h | h <;> simp [h]
  simp [buildableEq, valEq, ha, hb, this]

/-- A Buildable is never equal to a non-Buildable leaf, nor a leaf to a different leaf. -/
theorem C06_distinguishes_atoms (h1 h2 : Heap) (s t : String) (hne : s ≠ t) :
    buildableEq h1 h2 (.atom s) (.atom t) = false := by
  simp [buildableEq, valEq, hne]

/-- Different numbers of (defaults-completed) arguments are never equal. -/
theorem C06_distinguishes_argument_sets (h1 h2 : Heap) (i j : Nat) (a b : GObj)
    (ha : h1[i]? = some a) (hb : h2[j]? = some b) (hk : a.kind = .cfg)
    (hl : (childrenWithDefaults a).length ≠ (childrenWithDefaults b).length) :
    buildableEq h1 h2 (.ref i) (.ref j) = false := by
  by_cases hne : (a.kind != b.kind || a.ty != b.ty || a.bk != b.bk) = true
  · simp [buildableEq, valEq, ha, hb, hne]
  · simp [buildableEq, valEq, ha, hb, hne, hk, hl]

/-- An argument a Buildable lacks on the other side (after defaults) makes them unequal. -/
theorem C06_distinguishes_missing_argument (h1 h2 : Heap) (i j : Nat) (a b : GObj)
    (ha : h1[i]? = some a) (hb : h2[j]? = some b) (hk : a.kind = .cfg)
    (x : PElem × GVal) (hx : x ∈ childrenWithDefaults a)
    (hmiss : lookupChild (childrenWithDefaults b) x.1 = none) :
    buildableEq h1 h2 (.ref i) (.ref j) = false := by
  by_cases hne : (a.kind != b.kind || a.ty != b.ty || a.bk != b.bk) = true
  · simp [buildableEq, valEq, ha, hb, hne]
  · have : ((childrenWithDefaults a).all (fun x =>
        match lookupChild (childrenWithDefaults b) x.1 with
        | some y => valEq h1 h2 (h1.length + h2.length + 1) x.2 y
        | none => false)) = false := by
      rw [List.all_eq_false]
      exact ⟨x, hx, by simp [hmiss]⟩
    have hval : valEq h1 h2 (h1.length + h2.length + 1 + 1) (.ref i) (.ref j) = false := by
      simp only [valEq, ha, hb]
      rw [if_neg hne]
      simp only [hk]
      rw [Bool.and_eq_false_iff]; right
      rw [List.all_eq_false]
      exact ⟨x, hx, by simp [hmiss]⟩
    simp [buildableEq, hval]

/-- Sharing structure: once object `i` of the left configuration has been matched with `j'`,
    meeting it again opposite a different object `j` is a mismatch ... -/
theorem C06_distinguishes_sharing_left (h1 h2 : Heap) (fuel i j j' : Nat) (st : ShareSt)
    (hint : (isInternable h1 (h1.length + 1) (.ref i) ||
      isInternable h2 (h2.length + 1) (.ref j)) = false)
    (hm : assocGet st.xToY i = some j') (hne : j' ≠ j) :
    shareVisit h1 h2 (fuel + 1) (.ref i) (.ref j) st = none := by
  simp only [shareVisit, hint, hm]
  cases assocGet st.yToX j <;> simp [hne]

/-- ... and symmetrically for the right configuration: sharing on one side only is detected
    in both directions. -/
theorem C06_distinguishes_sharing_right (h1 h2 : Heap) (fuel i j i' : Nat) (st : ShareSt)
    (hint : (isInternable h1 (h1.length + 1) (.ref i) ||
      isInternable h2 (h2.length + 1) (.ref j)) = false)
    (hm : assocGet st.yToX j = some i') (hne : i' ≠ i) :
    shareVisit h1 h2 (fuel + 1) (.ref i) (.ref j) st = none := by
  simp only [shareVisit, hint, hm]
  cases assocGet st.xToY i <;> simp [hne]

/-- A failed sharing walk makes `==` false whatever the values are. -/
theorem C06_sharing_mismatch_is_unequal (h1 h2 : Heap) (r1 r2 : GVal)
    (hs : shareVisit h1 h2 (h1.length + h2.length + 2) r1 r2 {} = none) :
    buildableEq h1 h2 r1 r2 = false := by
  simp [buildableEq, hs]

/-! ## The sharing walk as a one-to-one correspondence -/

/-- **What the sharing walk decides**: it succeeds exactly when there is a one-to-one
    correspondence `B` between objects of the two configurations that pairs the roots and is
    closed — paired objects have the same keys, and their children under equal keys are paired
    again (internable values are skipped, opaque values are paired but not entered). -/
theorem C06_sharing_walk_characterised (h1 h2 : Heap) (w1 : h1.EqWF) (r1 r2 : GVal)
    (hr : ∀ i, r1 = .ref i → i < h1.length) :
    (shareVisit h1 h2 (h1.length + h2.length + 2) r1 r2 {}).isSome = true ↔
      ∃ B, Corr h1 h2 B ∧ Rec h1 h2 B r1 r2 :=
  shareVisit_iff h1 h2 w1 _ r1 r2 (fun i hi => by have := hr i hi; omega)

/-- The correspondence the walk itself builds is one-to-one and closed, contains the root pair
    and every pair reached from it. -/
theorem C06_sharing_walk_result (h1 h2 : Heap) (fuel : Nat) (r1 r2 : GVal) (st : ShareSt)
    (h : shareVisit h1 h2 fuel r1 r2 {} = some st) :
    Corr h1 h2 st.xToY ∧ Rec h1 h2 st.xToY r1 r2 ∧ st.yToX = st.xToY.map Prod.swap := by
  have ok := shareVisit_sound h1 h2 fuel r1 r2 {} st ShareSt.inv_empty h
  exact ⟨corr_of_inv h1 h2 st ok.inv (fun p hp => ok.closed p hp (by simp)), ok.recd, ok.inv.inv⟩

/-- **`==` is symmetric**: values (`C06_values_symmetric`) and sharing walk together. -/
theorem C06_symmetric (h1 h2 : Heap) (w1 : h1.EqWF) (w2 : h2.EqWF) (r1 r2 : GVal)
    (hr1 : ∀ i, r1 = .ref i → i < h1.length) (hr2 : ∀ j, r2 = .ref j → j < h2.length)
    (h : buildableEq h1 h2 r1 r2 = true) : buildableEq h2 h1 r2 r1 = true := by
  unfold buildableEq at h ⊢
  simp only [Bool.and_eq_true] at h ⊢
  have e : h2.length + h1.length + 2 = h1.length + h2.length + 2 := by omega
  rw [e]
  refine ⟨valEq_symm h1 h2 w1 w2 _ r1 r2 h.1, ?_⟩
  exact shareVisit_symm h1 h2 w1 w2 _ _ r1 r2
    (fun i hi => by have := hr1 i hi; omega) (fun j hj => by have := hr2 j hj; omega) h.2

/-- **`==` is transitive** (three configurations, any three heaps): values by
    `C06_values_transitive`, sharing by composing the two one-to-one correspondences. -/
theorem C06_transitive (h1 h2 h3 : Heap) (w1 : h1.EqWF) (w2 : h2.EqWF) (w3 : h3.EqWF)
    (x y z : GVal) (hx : ∀ i, x = .ref i → i < h1.length) (hy : ∀ j, y = .ref j → j < h2.length)
    (hz : ∀ k, z = .ref k → k < h3.length)
    (e12 : buildableEq h1 h2 x y = true) (e23 : buildableEq h2 h3 y z = true) :
    buildableEq h1 h3 x z = true :=
  buildableEq_trans h1 h2 h3 w1 w2 w3 x y z hx hy hz e12 e23

/-- **`==` ignores dict insertion order and argument assignment order**: listing the entries of
    any dicts, defaultdicts or Buildables (on either side) in another order changes neither the
    value comparison nor the sharing walk. -/
theorem C06_insertion_order_ignored (h1 h1' h2 h2' : Heap) (r1 : Reordered h1 h1')
    (r2 : Reordered h2 h2') (w1 : h1.EqWF) (w1' : h1'.EqWF) (w2 : h2.EqWF) (w2' : h2'.EqWF)
    (x y : GVal) (hx : ∀ i, x = .ref i → i < h1.length) :
    buildableEq h1' h2' x y = buildableEq h1 h2 x y :=
  buildableEq_reordered r1 r2 w1 w1' w2 w2' x y hx

/-! ## Non-vacuity -/

private def dAB : Heap :=
  [ { kind := .list, children := [] },
    { kind := .dict, children := [(.key "a", .ref 0), (.key "b", .atom "2")] } ]
private def dBA : Heap :=
  [ { kind := .list, children := [] },
    { kind := .dict, children := [(.key "b", .atom "2"), (.key "a", .ref 0)] } ]

/-- a dict with its two entries swapped is a reordering -/
example : Reordered dAB dBA := by
  refine ⟨rfl, ?_⟩
  intro i o ho
  match i, ho with
  | 0, ho =>
    simp [dAB] at ho; subst ho
    exact ⟨_, rfl, rfl, rfl, rfl, List.Perm.refl _, List.Perm.refl _, fun _ => rfl⟩
  | 1, ho =>
    simp [dAB] at ho; subst ho
    refine ⟨_, rfl, rfl, rfl, rfl, List.Perm.swap _ _ _, ?_, fun h => by simp [GObj.seqLike] at h⟩
    simp only [childrenWithDefaults]
    exact List.Perm.swap _ _ _
  | n + 2, ho => simp [dAB] at ho

private def two : Heap :=
  [ { kind := .list, children := [] },
    { kind := .cfg, ty := "f", bk := "Config", children := [(.attr "a", .ref 0), (.attr "b", .ref 0)] } ]
private def twoSplit : Heap :=
  [ { kind := .list, children := [] }, { kind := .list, children := [] },
    { kind := .cfg, ty := "f", bk := "Config", children := [(.attr "a", .ref 0), (.attr "b", .ref 1)] } ]

example : two.EqWF := Heap.eqWF_of_B two (by decide)
/-- equal values, different sharing: not equal, in both directions -/
example : buildableEq two twoSplit (.ref 1) (.ref 2) = false ∧
    buildableEq twoSplit two (.ref 2) (.ref 1) = false ∧
    buildableEq two two (.ref 1) (.ref 1) = true := by decide

end Fiddle
