import FiddleModel.Model.Graph
namespace Fiddle
theorem C08_placeholder : True := trivial
end Fiddle
