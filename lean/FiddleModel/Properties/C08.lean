/-
C08 — traversal paths are sound and complete.

Model: `Model/Graph.lean` (`followPath`, `iterate` in its three modes, `collectPathsById`,
`allPathsTo`), over heaps whose object identity is the heap index. Hypotheses, both decidable
and both checked by the driver on every heap it is sent (a request violating either is refused,
which the harness reports as a correspondence failure):
  * `Heap.PathsDistinct` — the path elements of one object's children are distinct;
  * `Heap.WellFormed`    — children refer to earlier objects (the structure is acyclic).

Proved here for every heap, root and mode: soundness of every reported pair; for the
un-memoized traversal completeness and no duplicate path; for the memoized traversal exactly
one report per reachable mutable object; the all-paths query is exactly the set of reaching paths.
Also proved: the identity rebuild (`map_children` with the identity function) yields a
structure of the same types, path for path equal, with the same sharing.
Carried by the correspondence check only: the cycle error of `iterate`
(cyclic structures are outside well-formed heaps; `build`'s cycle error is in the model).
-/
import FiddleModel.Lemmas.Traverse
import FiddleModel.Lemmas.RebuildL
import FiddleModel.Lemmas.RebuildTotal
import FiddleModel.Lemmas.RebuildStable

namespace Fiddle

/-- Soundness, all modes: each reported (value, path) satisfies `follow_path(root, path) is value`. -/
theorem C08_sound (h : Heap) (hd : h.PathsDistinct) (mode : IterMode) (root : GVal)
    (v : GVal) (p : Path) (hm : (v, p) ∈ iterate h mode root) : followPath h root p = some v := by
  have := iterGo_sound h hd mode root (h.length + 1) root [] {} rfl (by intro vp hvp; cases hvp)
  exact this (v, p) hm

/-- Completeness of the un-memoized traversal: every path that reaches a value is reported. -/
theorem C08_basic_complete (h : Heap) (wf : h.WellFormed) (root v : GVal) (p : Path)
    (hf : followPath h root p = some v) : (v, p) ∈ iterate h .basic root := by
  rw [iterate_basic]
  have := pairs_complete h (h.length + 1) root v [] p hf (followPath_length_heap h wf p root v hf)
  simpa using this

/-- ... exactly once: no path is reported twice. -/
theorem C08_basic_no_duplicates (h : Heap) (hd : h.PathsDistinct) (root : GVal) :
    ((iterate h .basic root).map (·.2)).Nodup := by
  rw [iterate_basic]; exact pairs_paths_nodup h hd _ root []

/-- The un-memoized traversal reports exactly the valid paths, each with its value. -/
theorem C08_basic_exact (h : Heap) (wf : h.WellFormed) (hd : h.PathsDistinct) (root v : GVal)
    (p : Path) : (v, p) ∈ iterate h .basic root ↔ followPath h root p = some v :=
  ⟨C08_sound h hd .basic root v p, C08_basic_complete h wf root v p⟩

/-- The memoized traversal reports a mutable object at most once. -/
theorem C08_memo_at_most_once (h : Heap) (root : GVal) :
    (refIds (iterate h .memo root)).Nodup :=
  (iterGo_memo_once h (h.length + 1) root [] {} ⟨by simp [refIds], by simp [refIds]⟩).1.nodup

/-- ... and every mutable object reachable from the root is reported: exactly once. -/
theorem C08_memo_complete (h : Heap) (wf : h.WellFormed) (i : Nat) (hi : i < h.length)
    (j : Nat) (hr : ReachA h i j) : j ∈ refIds (iterate h .memo (.ref i)) := by
  have hs := iterGo_memo_complete h wf (h.length + 1) (.ref i) [] {} (i + 1)
    (by simp [GVal.rank]; omega) (by simp [GVal.rank]) (by intro k hk; cases hk)
  have hy := iterGo_memo_yielded h (h.length + 1) (.ref i) [] {} (by intro k hk; cases hk)
  exact hy j (hs.full i rfl j hr)

theorem C08_memo_exactly_once (h : Heap) (wf : h.WellFormed) (i : Nat) (hi : i < h.length)
    (j : Nat) (hr : ReachA h i j) : (refIds (iterate h .memo (.ref i))).count j = 1 := by
  rw [(C08_memo_at_most_once h (.ref i)).count]
  simp [C08_memo_complete h wf i hi j hr]

/-- `collect_paths_by_id` / `get_all_paths`: exactly the paths that reach the object. -/
theorem C08_all_paths_exact (h : Heap) (wf : h.WellFormed) (hd : h.PathsDistinct) (root : GVal)
    (i : Nat) (p : Path) : p ∈ allPathsTo h root i ↔ followPath h root p = some (.ref i) := by
  rw [← C08_basic_exact h wf hd]
  simp only [allPathsTo, collectPathsById, List.mem_filterMap]
  constructor
  · rintro ⟨⟨j, q⟩, ⟨⟨w, q'⟩, hm, hw⟩, hq⟩
    cases w with
    | atom t => simp at hw
    | ref k =>
      simp at hw
      obtain ⟨rfl, rfl⟩ := hw
      by_cases e : k = i
      · subst e; simp at hq; subst hq; exact hm
      · simp [e] at hq
  · intro hm
    exact ⟨(i, p), ⟨(.ref i, p), hm, by simp⟩, by simp⟩

/-- ... and no path is listed twice. -/
theorem C08_all_paths_nodup (h : Heap) (hd : h.PathsDistinct) (root : GVal) (i : Nat) :
    (allPathsTo h root i).Nodup := by
  have hn := C08_basic_no_duplicates h hd root
  have e : allPathsTo h root i =
      ((iterate h .basic root).filter (fun vp => vp.1 == .ref i)).map (·.2) := by
    simp only [allPathsTo, collectPathsById]
    induction iterate h .basic root with
    | nil => rfl
    | cons x xs ih =>
      obtain ⟨w, q⟩ := x
      cases w with
      | atom t => simpa [List.filterMap_cons, List.filter_cons] using ih
      | ref k =>
        by_cases e : k = i
        · subst e; simpa [List.filterMap_cons, List.filter_cons] using ih
        · simpa [List.filterMap_cons, List.filter_cons, e] using ih
  rw [e]
  exact (List.Nodup.sublist (List.Sublist.map _ List.filter_sublist) hn)

/-! ## Identity rebuild (`MemoizedTraversal.run(lambda v, s: s.map_children(v), x)`) -/

private theorem rebuild_inv {h : Heap} (wf : h.WellFormed) {root r : GVal} {st : RbSt}
    (hb : rebuild h root = .ok (r, st)) : st.Inv h ∧ r = imageOf st.memo root ∧ Memoized' st root := by
  obtain ⟨s, m⟩ := rebuildVal_step h wf _ root {} r st hb (RbSt.inv_init h)
  exact ⟨s.inv, m.1, m.2⟩

/-- The identity rebuild returns on every acyclic structure, whatever its size, depth or
    sharing (the traversal's fuel `|heap| + 1` suffices). -/
theorem C08_rebuild_returns (h : Heap) (wf : h.WellFormed) (root : GVal)
    (hr : ∀ i, root = .ref i → i < h.length) : ∃ r st, rebuild h root = .ok (r, st) :=
  rebuild_total h wf root hr

/-- Rebuilding through an identity traversal gives a structure of the same types: every new
    object is the copy of exactly one original object, with the same kind, type / callable,
    tags and keys ... -/
theorem C08_rebuild_same_types (h : Heap) (wf : h.WellFormed) (root r : GVal) (st : RbSt)
    (hb : rebuild h root = .ok (r, st)) (j : Nat) (o' : GObj) (hj : st.out[j]? = some o') :
    ∃ i o, rbGet st.memo i = some j ∧ h[i]? = some o ∧ o'.kind = o.kind ∧ o'.ty = o.ty ∧
      o'.bk = o.bk ∧ o'.tags = o.tags ∧ o'.children.map (·.1) = o.children.map (·.1) := by
  obtain ⟨i, o, hij, ho, rfl⟩ := rebuilt_out_object h st (rebuild_inv wf hb).1 j o' hj
  refine ⟨i, o, hij, ho, rfl, rfl, rfl, rfl, ?_⟩
  simp [copyOf, zip_map_snd, List.map_map, Function.comp]

/-- ... an equal structure: following any path in the result leads to the copy of what the
    same path leads to in the original ... -/
theorem C08_rebuild_faithful (h : Heap) (wf : h.WellFormed) (root r : GVal) (st : RbSt)
    (hb : rebuild h root = .ok (r, st)) (p : Path) :
    followPath st.out r p = (followPath h root p).map (imageOf st.memo) := by
  obtain ⟨hi, hr, hm⟩ := rebuild_inv wf hb
  rw [hr]; exact followPath_rebuilt h st hi p root hm

/-- ... with the same sharing: two paths meet in the result exactly when they meet in the
    original. -/
theorem C08_rebuild_same_sharing (h : Heap) (wf : h.WellFormed) (root r : GVal) (st : RbSt)
    (hb : rebuild h root = .ok (r, st)) (p q : Path) :
    followPath st.out r p = followPath st.out r q ↔ followPath h root p = followPath h root q := by
  obtain ⟨hi, _, hm⟩ := rebuild_inv wf hb
  rw [C08_rebuild_faithful h wf root r st hb, C08_rebuild_faithful h wf root r st hb]
  constructor
  · intro e
    cases hp : followPath h root p with
    | none =>
      cases hq : followPath h root q with
      | none => rfl
      | some w => simp [hp, hq] at e
    | some v =>
      cases hq : followPath h root q with
      | none => simp [hp, hq] at e
      | some w =>
        simp only [hp, hq, Option.map_some, Option.some.injEq] at e
        rw [imageOf_injective h st hi v w (followPath_memoized h st hi p root v hm hp)
          (followPath_memoized h st hi q root w hm hq) e]
  · intro e; rw [e]

/-! ## Non-vacuity: the hypotheses hold of a diamond with a shared dict, and the traversal of it
    is non-trivial. -/

private def dia : Heap :=
  [ { kind := .dict, children := [(.key "k", .atom "1")] },
    { kind := .list, children := [(.index 0, .ref 0), (.index 1, .ref 0)] } ]

example : dia.WellFormed ∧ dia.PathsDistinct :=
  ⟨Heap.wellFormed_of_B dia (by decide), Heap.pathsDistinct_of_B dia (by decide)⟩

example : (iterate dia .basic (.ref 1)).length = 5 ∧ (iterate dia .memo (.ref 1)).length = 3 ∧
    allPathsTo dia (.ref 1) 0 = [[.index 0], [.index 1]] := by decide

/-- The identity rebuild is idempotent: rebuilding its own result reproduces that result
    object for object (the result is in the traversal's own canonical order). -/
theorem C08_rebuild_idempotent (h : Heap) (wf : h.WellFormed) (root r : GVal) (st : RbSt)
    (hb : rebuild h root = .ok (r, st)) :
    ∃ st2, rebuild st.out r = .ok (r, st2) ∧ st2.out = st.out :=
  rebuild_stable h wf root r st hb

end Fiddle
