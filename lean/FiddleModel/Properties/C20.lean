import FiddleModel.Model.ArgStore
namespace Fiddle
theorem C20_placeholder : True := trivial
end Fiddle
