/-
C20 — meaning-preserving transformations preserve what is built.

Modelled and proved here: `materialize_defaults` on one Buildable (`Cfg.materializeDefaults`,
the loop of `materialize.py` over the ArgStore model, which the correspondence checks of C03,
C07, C14 and C16 run against the real function on every generated edit history). For every
signature and every store, when it succeeds:
  * nothing configured is touched, tags are untouched;
  * what is added is, for parameters that had no value, their own default under their own key
    — so every parameter receives exactly the value it would have received before;
  * afterwards every named parameter that has a default is explicitly set;
  * a second run changes nothing at all, history log included (`C20_idempotent`).
The other transformations of the property (with_defaults_trimmed, unintern_tuples_of_literals,
replace_unconfigured_partials_with_callables, clear_argument_history, materialize_tags,
auto_config.inline, convert_dataclasses_to_configs) have no Lean model; for them the check
compares builds of the real code before and after (see DESIGN.md) and this file proves nothing.
-/
import FiddleModel.Lemmas.Materialize

namespace Fiddle

theorem C20_materialize_result (s : Sig) (c c' : Cfg) (h : c.materializeDefaults s = .ok c') :
    MatResult s c c' :=
  (materializeLoop_result s s [] 0 true c c' rfl rfl h).1

/-- Tags are not touched. -/
theorem C20_materialize_keeps_tags (s : Sig) (c c' : Cfg) (h : c.materializeDefaults s = .ok c') :
    c'.tags = c.tags := (C20_materialize_result s c c' h).tags

/-- Every configured argument keeps its value. -/
theorem C20_materialize_keeps_configured (s : Sig) (c c' : Cfg)
    (h : c.materializeDefaults s = .ok c') (k : Key) (v : Val) (hk : c.args.get? k = some v) :
    c'.args.get? k = some v := by
  obtain ⟨added, e, _⟩ := (C20_materialize_result s c c' h).ext
  rw [e, Dict.get?_append, hk]; rfl

/-- Each key is either unchanged, or was unset and now holds the default of the parameter it
    belongs to. -/
theorem C20_materialize_only_own_defaults (s : Sig) (c c' : Cfg)
    (h : c.materializeDefaults s = .ok c') (k : Key) :
    c'.args.get? k = c.args.get? k ∨
      (c.args.get? k = none ∧ ∃ v, c'.args.get? k = some v ∧ OwnDefault s (k, v)) := by
  obtain ⟨added, e, pa⟩ := (C20_materialize_result s c c' h).ext
  rw [e, Dict.get?_append]
  cases hd : c.args.get? k with
  | some v => left; rfl
  | none =>
    cases ha : added.get? k with
    | none => left; rfl
    | some v =>
      right
      exact ⟨rfl, v, rfl, (pa (k, v) (Dict.get?_mem added k v ha)).2⟩

/-- The key under which parameter `p` of `s` is stored. -/
def OwnKey (s : Sig) (p : Param) (key : Key) : Prop :=
  (p.kind ≠ .po ∧ key = .name p.name) ∨ (p.kind = .po ∧ ∃ i : Nat, s[i]? = some p ∧ key = .idx i)

/-- **What is built is preserved**: every parameter receives the same value after the
    transformation as before — its configured value, else its default. -/
theorem C20_materialize_same_values (s : Sig) (c c' : Cfg) (h : c.materializeDefaults s = .ok c')
    (p : Param) (key : Key) (hown : OwnKey s p key) :
    (c'.args.get? key).getD (Sig.dfltVal p) = (c.args.get? key).getD (Sig.dfltVal p) := by
  rcases C20_materialize_only_own_defaults s c c' h key with e | ⟨hn, v, hv, q, _, _, hqv, hq⟩
  · rw [e]
  · rw [hn, hv]
    simp only [Option.getD_some, Option.getD_none]
    simp only at hqv hq
    rw [hqv]
    rcases hown with ⟨_, rfl⟩ | ⟨_, i, hi, rfl⟩
    · rcases hq with ⟨_, e⟩ | ⟨_, j, _, e⟩
      · simp only [Key.name.injEq] at e
        simp [Sig.dfltVal, e]
      · cases e
    · rcases hq with ⟨_, e⟩ | ⟨_, j, hj, e⟩
      · cases e
      · simp only [Key.idx.injEq] at e
        have : j = i := by omega
        subst this
        rw [hi] at hj; cases hj; rfl

/-- Variadic arguments (`*args`, `**kwargs` entries) and every key that is not a defaulted
    parameter's own key are exactly as before. -/
theorem C20_materialize_frame (s : Sig) (c c' : Cfg) (h : c.materializeDefaults s = .ok c')
    (k : Key) (hk : ∀ v, ¬ OwnDefault s (k, v)) : c'.args.get? k = c.args.get? k := by
  rcases C20_materialize_only_own_defaults s c c' h k with e | ⟨_, v, _, ho⟩
  · exact e
  · exact absurd ho (hk v)

/-- Afterwards every named parameter that has a default is explicitly set. -/
theorem C20_materialize_all_named_set (s : Sig) (c c' : Cfg)
    (h : c.materializeDefaults s = .ok c') (p : Param) (hp : p ∈ s) (hd : p.dflt = true)
    (hk : p.kind ≠ .po) : c'.args.contains (.name p.name) = true :=
  (materializeLoop_result s s [] 0 true c c' rfl rfl h).2 p hp hd hk

/-- **Idempotence**: a second run changes nothing at all — arguments, tags, and not even the
    history log — for every signature (positional-only defaults and the "prefix is set" rule
    included). -/
theorem C20_idempotent (s : Sig) (c c' : Cfg) (h : c.materializeDefaults s = .ok c') :
    c'.materializeDefaults s = .ok c' :=
  materializeDefaults_idempotent s c c' h

/-! ## Non-vacuity -/

private def sg : Sig := [⟨"a", .pk, false⟩, ⟨"b", .pk, true⟩, ⟨"c", .ko, true⟩]
private def c0 : Cfg := { args := [(.name "a", .v 1), (.name "c", .v 2)], tags := [], hist := [], ctr := 0, tracking := true }

example : ∃ c', c0.materializeDefaults sg = .ok c' ∧
    c'.args = [(.name "a", .v 1), (.name "c", .v 2), (.name "b", .d "b")] := by
  refine ⟨_, rfl, ?_⟩
  decide

end Fiddle
