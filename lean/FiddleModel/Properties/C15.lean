import FiddleModel.Model.Graph
namespace Fiddle
theorem C15_placeholder : True := trivial
end Fiddle
