/-
C15 — select() hits exactly the matching nodes; replace keeps the rest intact.

Model: `Model/Select.lean` over heaps (`selectIds`, `Heap.setOn`, `Heap.replaceRefs`,
`tagValues`). The matching rule itself (`Matcher.matches`: callable equality, subclass
matching, Buildable type) is compared with `NodeSelection._matches` by the correspondence
check; the theorems hold for every node predicate `p`, so they cover every matching rule.
The order in which a selection yields its nodes is not part of the property and not modelled.
`.replace(v, deepcopy=True)` inserts a separate copy of `v` at each reference; the model
substitutes the value `v` itself (the `deepcopy=False` behaviour) and the correspondence check
compares modulo the identity of the inserted copies.
-/
import FiddleModel.Lemmas.SelectL

namespace Fiddle

/-- `select(cfg, F)` yields exactly the reachable Buildables that match ... -/
theorem C15_select_exact (h : Heap) (wf : h.WellFormed) (hd : h.PathsDistinct) (i : Nat)
    (hi : i < h.length) (p : GObj → Bool) (j : Nat) :
    j ∈ selectIds h (.ref i) p ↔
      ReachA h i j ∧ ∃ o, h[j]? = some o ∧ o.kind = .cfg ∧ p o = true := by
  simp only [selectIds, List.mem_filter, mem_reachableIds h wf hd i hi]
  constructor
  · rintro ⟨hr, hm⟩
    cases ho : h[j]? with
    | none => simp [ho] at hm
    | some o =>
      simp only [ho, Bool.and_eq_true, beq_iff_eq] at hm
      exact ⟨hr, o, rfl, hm.1, hm.2⟩
  · rintro ⟨hr, o, ho, hk, hp⟩
    exact ⟨hr, by simp [ho, hk, hp]⟩

/-- ... each exactly once. -/
theorem C15_select_once (h : Heap) (root : GVal) (p : GObj → Bool) :
    (selectIds h root p).Nodup :=
  (reachableIds_nodup h root).sublist List.filter_sublist

/-- `.set(**kw)`: nodes outside the selection are untouched ... -/
theorem C15_set_frame (h : Heap) (ids : List Nat) (kvs : List (PElem × GVal)) (k : Nat)
    (hk : k ∉ ids) : (h.setOn ids kvs)[k]? = h[k]? := by
  rw [setOn_get]
  cases h[k]? with
  | none => rfl
  | some o => simp [hk]

/-- ... and on a selected node every given attribute holds its new value (the last one given
    for that name), every other argument keeps its value, and callable, type, signature and
    tags stay as they were. -/
theorem C15_set_assigns (h : Heap) (ids : List Nat) (kvs : List (PElem × GVal)) (k : Nat)
    (hk : k ∈ ids) (o : GObj) (ho : h[k]? = some o) :
    ∃ o', (h.setOn ids kvs)[k]? = some o' ∧ o'.kind = o.kind ∧ o'.ty = o.ty ∧ o'.bk = o.bk ∧
      o'.sig = o.sig ∧ o'.tags = o.tags ∧
      ∀ q, lk o'.children q = (lk kvs.reverse q).or (lk o.children q) := by
  refine ⟨{ o with children := upsertAll o.children kvs }, ?_, rfl, rfl, rfl, rfl, rfl, ?_⟩
  · rw [setOn_get, ho]; simp [hk]
  · intro q; exact lk_upsertAll kvs o.children q

/-- `.replace(v)`: every object keeps its index (identity), kind, callable, Buildable type,
    signature, tags, and the keys under which its children are stored — its place in the
    graph. -/
theorem C15_replace_keeps_nodes (h : Heap) (ids : List Nat) (v : GVal) (k : Nat) (o : GObj)
    (ho : h[k]? = some o) :
    ∃ o', (h.replaceRefs ids v)[k]? = some o' ∧ o'.kind = o.kind ∧ o'.ty = o.ty ∧
      o'.bk = o.bk ∧ o'.sig = o.sig ∧ o'.tags = o.tags ∧ o'.defaults = o.defaults ∧
      o'.children.map (·.1) = o.children.map (·.1) := by
  refine ⟨{ o with children := o.children.map (replaceChild ids v) }, ?_, rfl, rfl, rfl, rfl,
    rfl, rfl, ?_⟩
  · rw [replaceRefs_get, ho]; rfl
  · simp only [List.map_map]
    apply List.map_congr_left
    intro c _
    obtain ⟨pe, cv⟩ := c
    cases cv with
    | atom t => simp [replaceChild]
    | ref j => by_cases hj : j ∈ ids <;> simp [replaceChild, hj]

/-- ... a reference to a matching node is substituted by `v`, at every place it occurs ... -/
theorem C15_replace_substitutes (ids : List Nat) (v : GVal) (pe : PElem) (j : Nat)
    (hj : j ∈ ids) : replaceChild ids v (pe, .ref j) = (pe, v) := by
  simp [replaceChild, hj]

/-- ... and every other argument is left exactly as it was. -/
theorem C15_replace_keeps_others (ids : List Nat) (v : GVal) (c : PElem × GVal)
    (hc : ∀ j, c.2 = .ref j → j ∉ ids) : replaceChild ids v c = c := by
  unfold replaceChild
  cases hc2 : c.2 with
  | atom t => rfl
  | ref j => simp [hc j hc2]

/-- After the replacement no object refers to a matching node any more (provided the new
    value is not itself one). -/
theorem C15_replace_complete (h : Heap) (ids : List Nat) (v : GVal)
    (hv : ∀ j, v = .ref j → j ∉ ids) (k : Nat) (o' : GObj)
    (ho : (h.replaceRefs ids v)[k]? = some o') (c : PElem × GVal) (hc : c ∈ o'.children)
    (j : Nat) (hj : c.2 = .ref j) : j ∉ ids := by
  rw [replaceRefs_get] at ho
  cases hk : h[k]? with
  | none => simp [hk] at ho
  | some o =>
    simp only [hk, Option.map_some, Option.some.injEq] at ho
    subst ho
    simp only [List.mem_map] at hc
    obtain ⟨c0, _, rfl⟩ := hc
    unfold replaceChild at hj
    cases h0 : c0.2 with
    | atom t => simp [h0] at hj
    | ref j0 =>
      simp only [h0] at hj
      by_cases hin : j0 ∈ ids
      · simp [hin] at hj; exact hv j hj
      · simp [hin, h0] at hj; subst hj; exact hin

/-- Iterating a tag selection: the argument's value if set, else the parameter's default,
    else NO_VALUE. -/
theorem C15_tag_iteration_value (sub : Nat → Nat → Bool) (T : Nat) (o : GObj) (k : Key)
    (hk : k ∈ taggedKeys sub T o) :
    (k, (lk o.children (pelemOfKey k)).or (lk o.defaults (pelemOfKey k))) ∈ tagValues sub T o := by
  simp only [tagValues, List.mem_map]
  refine ⟨k, hk, ?_⟩
  simp only [lk]
  cases (o.children.find? (fun c => c.1 == pelemOfKey k)) <;> simp

/-! ## Non-vacuity -/

private def g : Heap :=
  [ { kind := .cfg, ty := "f", bk := "Config", children := [(.attr "x", .atom "1")] },
    { kind := .list, children := [(.index 0, .ref 0), (.index 1, .ref 0)] },
    { kind := .cfg, ty := "g", bk := "Config", children := [(.attr "a", .ref 1), (.attr "b", .ref 0)] } ]

example : g.WellFormed ∧ g.PathsDistinct ∧ selectIds g (.ref 2) (fun o => o.ty == "f") = [0] ∧
    ((g.replaceRefs [0] (.atom "V"))[1]?).map (·.children) =
      some [(.index 0, .atom "V"), (.index 1, .atom "V")] :=
  ⟨Heap.wellFormed_of_B g (by decide), Heap.pathsDistinct_of_B g (by decide), by decide, by decide⟩

end Fiddle
