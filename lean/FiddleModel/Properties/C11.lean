/-
C11 — auto_config: building as_buildable() equals calling the function.

How the property decomposes in the model.
  * The body of an auto_config function is a program of `Model/Codegen.lean`'s statement
    language (assignments, variables, literals, container displays, calls of configurable
    callables). Calling the function evaluates each call expression by *invoking* the callable;
    `as_buildable` evaluates the same expression by *creating a Config / Partial node* for it
    (that is what the AST rewrite into `auto_config_call_handler` does). In the model both are
    `CProg.run`: one new heap object per evaluated call, variables denote the object they were
    bound to. So the object graph of the direct call and the configuration DAG of
    `as_buildable` are the same heap — read once as objects, once as Buildables — and
    `as_buildable` performs no invocation because `run` has no such step.
  * `fdl.build` of that DAG then creates one object per node with the same arguments and
    the same sharing: C02 (`Mirror`, exactly-once, distinct results).
What ties this to the code: the correspondence run reads the *source text* of generated
functions into the model language, runs it, and compares the resulting DAG — nodes, callables,
argument keys, tags, sharing — with the DAG the real `as_buildable` returns; the oracle then
compares real builds with real direct calls. Calls of other auto_config functions, `exempt`,
lambdas, `*`/`**` splats and control flow are outside the modelled subset (checked by the
oracle only): `_partial`.

The direct call has its own semantics in the model (`CExpr.call`: a call expression *invokes*
its callable — what it receives is `bindBuilt`, C01's binding — and a display makes a
container). Two theorems then state the property itself, for every program of the language:
  * `C11_direct_call_is_config_graph`: the direct call and `as_buildable` run in lock-step —
    they return the same reference and object `k` of the direct call is configuration object
    `k` with its call made (`builtOf`);
  * `C11_direct_call_succeeds_when_calls_bind`: the converse — the direct call fails only where
    the binding of one of the calls fails;
  * `C11_build_equals_direct_call`: whenever `fdl.build` of that configuration succeeds, the
    object it makes for configuration object `i` is the direct call's object `i` with its
    references renamed by the build's memo, the renaming is one-to-one (same sharing), and the
    built root is the image of the value the direct call returned.
  * `C11_build_of_as_buildable_succeeds`: and that build does succeed whenever the direct call
    returns (acyclic configuration, every call binds, the traversal's fuel suffices).
-/
import FiddleModel.Lemmas.CodegenL
import FiddleModel.Lemmas.BuildMirror
import FiddleModel.Lemmas.CallEval

namespace Fiddle

/-- Each configurable call evaluated by `as_buildable` creates exactly one new node, for that
    callable, with the written argument names — and touches no existing node. -/
theorem C11_call_creates_one_node (ty bk : String) (sig : Sig) (ch : List (PElem × CExpr))
    (tags : List (Key × List Nat)) (env : CEnv) (h : Heap) (v : GVal) (h' : Heap)
    (he : (CExpr.node .cfg ty bk sig ch tags).eval env h = some (v, h')) :
    (∃ n, v = .ref n ∧ h.length ≤ n ∧ h'.length = n + 1) ∧ h <+: h' := by
  refine ⟨?_, CExpr.eval_prefix _ env h v h' he⟩
  simp only [CExpr.eval] at he
  split at he
  · cases he
  · rename_i vals h1 hc
    simp only [Option.some.injEq, Prod.mk.injEq] at he
    obtain ⟨rfl, rfl⟩ := he
    exact ⟨h1.length, rfl, (CExpr.evalCh_prefix ch env h vals h1 hc).length_le, by simp⟩

/-- A local variable used twice denotes one node: sharing in the function body is sharing in
    the configuration. -/
theorem C11_variable_is_shared_node (x : Nat) (env : CEnv) (h h2 : Heap) (v : GVal)
    (hx : env.lookup x = some v) :
    (CExpr.var x).eval env h = some (v, h) ∧ (CExpr.var x).eval env h2 = some (v, h2) := by
  simp [CExpr.eval, hx]

/-- Building the DAG `as_buildable` returned mirrors it object for object (hence mirrors the
    object graph of the direct call): C02's theorem, restated for a program's result. -/
theorem C11_build_mirrors_program_partial (p : CProg) (root : GVal) (h : Heap)
    (hp : p.run = some (root, h)) (fails : List Nat) (r : BVal) (st : BuildSt)
    (hb : build h fails root = .ok (r, st)) :
    Mirror h st ∧ st.log.Nodup ∧
      (∀ i j a, memoGet st.memo i = some (.built a) → memoGet st.memo j = some (.built a) → i = j) := by
  have hs := buildVal_step h fails _ root [] {} r st hb (BuildSt.inv_init h)
  exact ⟨build_mirror h fails root r st hb, hs.1.inv.nodup, hs.1.inv.inj⟩

/-- Calling the function and evaluating it into a configuration run in lock-step: same
    returned reference, and the direct call's objects are exactly the configuration's objects
    with each recorded call made (nothing else is created, in the same order). -/
theorem C11_direct_call_is_config_graph (p : CProg) (r : GVal) (out : List BObj)
    (hc : p.callRun = some (r, out)) :
    ∃ h, p.run = some (r, h) ∧ h.map builtOf = out.map some :=
  p.callRun_lockstep r out hc

/-- Conversely the direct call fails only where Python's binding of some call fails: if the
    program evaluates into a configuration all of whose recorded calls bind, the direct call
    returns (the same reference, with the lock-step image). -/
theorem C11_direct_call_succeeds_when_calls_bind (p : CProg) (r : GVal) (h : Heap)
    (hp : p.run = some (r, h)) (hall : ∀ o ∈ h, (builtOf o).isSome) :
    ∃ out, p.callRun = some (r, out) ∧ h.map builtOf = out.map some :=
  p.run_lockstep r h hp hall

/-- `fdl.build(fn.as_buildable())` is `fn()`: every object the build makes is the object the
    direct call made for the same program point, up to the (one-to-one) renaming of references
    the build's memo induces; the built root is the image of the returned value. -/
theorem C11_build_equals_direct_call (p : CProg) (root root' : GVal) (out : List BObj) (h : Heap)
    (hc : p.callRun = some (root, out)) (hp : p.run = some (root', h))
    (r : BVal) (st : BuildSt) (hb : build h [] root' = .ok (r, st)) :
    root' = root ∧ r = renV (buildRen st) (toB root) ∧
    (∀ i j, memoGet st.memo i = some (.built j) →
      st.out[j]? = (out[i]?).map (renO (buildRen st))) ∧
    (∀ i j a, memoGet st.memo i = some (.built a) → memoGet st.memo j = some (.built a) → i = j) := by
  obtain ⟨h1, hp1, hi⟩ := p.callRun_lockstep root out hc
  rw [hp] at hp1
  simp only [Option.some.injEq, Prod.mk.injEq] at hp1
  obtain ⟨rfl, rfl⟩ := hp1
  have hs := buildVal_step h [] _ root' [] {} r st hb (BuildSt.inv_init h)
  refine ⟨rfl, ?_, fun i j hij => built_is_renamed_call h out st hi
    (build_mirror h [] root' r st hb) i j hij, hs.1.inv.inj⟩
  rw [← resultOf_eq_ren]
  cases root' with
  | atom t =>
    simp only [build, buildVal] at hb
    simp only [Except.ok.injEq, Prod.mk.injEq] at hb
    rw [← hb.1]; rfl
  | ref i =>
    have := hs.2 i rfl
    simp [resultOf, this]

/-- ... and the build does succeed: whenever the direct call of a program returns, `fdl.build`
    of the configuration `as_buildable` made for it returns too (the configuration is acyclic,
    every one of its calls binds, and the traversal's fuel suffices) — so with the previous
    theorem, for *every* program of the language whose direct call returns,
    `fdl.build(fn.as_buildable())` returns the direct call's object graph up to a one-to-one
    renaming of object identities. -/
theorem C11_build_of_as_buildable_succeeds (p : CProg) (root : GVal) (out : List BObj)
    (hc : p.callRun = some (root, out)) :
    ∃ h r st, p.run = some (root, h) ∧ build h [] root = .ok (r, st) := by
  obtain ⟨h, hp, hi⟩ := p.callRun_lockstep root out hc
  obtain ⟨wf, hr⟩ := p.run_wf root h hp
  obtain ⟨r, st, hb⟩ := build_total h wf hi.binds root hr
  exact ⟨h, r, st, hp, hb⟩

/-! ## Non-vacuity: `x = f(); return g(a=x, b=[x])` -/

private def prog : CProg :=
  { assigns := [(0, .node .cfg "f" "Config" [] [] [])],
    ret := .node .cfg "g" "Config" [] [(.attr "a", .var 0),
      (.attr "b", .node .list "" "" [] [(.index 0, .var 0)] [])] [] }

example : (prog.run).map (fun r => (r.1, r.2.map (·.children))) =
    some (.ref 2, [[], [(.index 0, .ref 0)], [(.attr "a", .ref 0), (.attr "b", .ref 1)]]) := by
  decide

private def sigG : Sig := [{ name := "a", kind := .pk, dflt := false }, { name := "b", kind := .pk, dflt := false }]
private def prog2 : CProg :=
  { assigns := [(0, .node .cfg "f" "Config" [] [] [])],
    ret := .node .cfg "g" "Config" sigG [(.attr "a", .var 0),
      (.attr "b", .node .list "" "" [] [(.index 0, .var 0)] [])] [] }

example : prog2.callRun = some (.ref 2,
    [.call "f" [] [] [], .container .list "" [(.index 0, .built 0)],
     .call "g" [("a", .built 0), ("b", .built 1)] [] []]) := by decide

end Fiddle
