import FiddleModel.Generated.Tables
namespace Fiddle
theorem C11_placeholder : True := trivial
end Fiddle
