/-
C11 — auto_config: building as_buildable() equals calling the function.

How the property decomposes in the model.
  * The body of an auto_config function is a program of `Model/Codegen.lean`'s statement
    language (assignments, variables, literals, container displays, calls of configurable
    callables). Calling the function evaluates each call expression by *invoking* the callable;
    `as_buildable` evaluates the same expression by *creating a Config / Partial node* for it
    (that is what the AST rewrite into `auto_config_call_handler` does). In the model both are
    `CProg.run`: one new heap object per evaluated call, variables denote the object they were
    bound to. So the object graph of the direct call and the configuration DAG of
    `as_buildable` are the same heap — read once as objects, once as Buildables — and
    `as_buildable` performs no invocation because `run` has no such step.
  * `fdl.build` of that DAG then creates one object per node with the same arguments and
    the same sharing: C02 (`Mirror`, exactly-once, distinct results).
What ties this to the code: the correspondence run reads the *source text* of generated
functions into the model language, runs it, and compares the resulting DAG — nodes, callables,
argument keys, tags, sharing — with the DAG the real `as_buildable` returns; the oracle then
compares real builds with real direct calls. Calls of other auto_config functions, `exempt`,
lambdas, `*`/`**` splats and control flow are outside the modelled subset (checked by the
oracle only): `_partial`.
-/
import FiddleModel.Lemmas.CodegenL
import FiddleModel.Lemmas.BuildMirror

namespace Fiddle

/-- Each configurable call evaluated by `as_buildable` creates exactly one new node, for that
    callable, with the written argument names — and touches no existing node. -/
theorem C11_call_creates_one_node (ty bk : String) (sig : Sig) (ch : List (PElem × CExpr))
    (tags : List (Key × List Nat)) (env : CEnv) (h : Heap) (v : GVal) (h' : Heap)
    (he : (CExpr.node .cfg ty bk sig ch tags).eval env h = some (v, h')) :
    (∃ n, v = .ref n ∧ h.length ≤ n ∧ h'.length = n + 1) ∧ h <+: h' := by
  refine ⟨?_, CExpr.eval_prefix _ env h v h' he⟩
  simp only [CExpr.eval] at he
  split at he
  · cases he
  · rename_i vals h1 hc
    simp only [Option.some.injEq, Prod.mk.injEq] at he
    obtain ⟨rfl, rfl⟩ := he
    exact ⟨h1.length, rfl, (CExpr.evalCh_prefix ch env h vals h1 hc).length_le, by simp⟩

/-- A local variable used twice denotes one node: sharing in the function body is sharing in
    the configuration. -/
theorem C11_variable_is_shared_node (x : Nat) (env : CEnv) (h h2 : Heap) (v : GVal)
    (hx : env.lookup x = some v) :
    (CExpr.var x).eval env h = some (v, h) ∧ (CExpr.var x).eval env h2 = some (v, h2) := by
  simp [CExpr.eval, hx]

/-- Building the DAG `as_buildable` returned mirrors it object for object (hence mirrors the
    object graph of the direct call): C02's theorem, restated for a program's result. -/
theorem C11_build_mirrors_program_partial (p : CProg) (root : GVal) (h : Heap)
    (hp : p.run = some (root, h)) (fails : List Nat) (r : BVal) (st : BuildSt)
    (hb : build h fails root = .ok (r, st)) :
    Mirror h st ∧ st.log.Nodup ∧
      (∀ i j a, memoGet st.memo i = some (.built a) → memoGet st.memo j = some (.built a) → i = j) := by
  have hs := buildVal_step h fails _ root [] {} r st hb (BuildSt.inv_init h)
  exact ⟨build_mirror h fails root r st hb, hs.1.inv.nodup, hs.1.inv.inj⟩

/-! ## Non-vacuity: `x = f(); return g(a=x, b=[x])` -/

private def prog : CProg :=
  { assigns := [(0, .node .cfg "f" "Config" [] [] [])],
    ret := .node .cfg "g" "Config" [] [(.attr "a", .var 0),
      (.attr "b", .node .list "" "" [] [(.index 0, .var 0)] [])] [] }

example : (prog.run).map (fun r => (r.1, r.2.map (·.children))) =
    some (.ref 2, [[], [(.index 0, .ref 0)], [(.attr "a", .ref 0), (.attr "b", .ref 1)]]) := by
  decide

end Fiddle
