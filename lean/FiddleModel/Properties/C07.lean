/-
C07 — copies are faithful and independent (copy, deepcopy, pickle, cast).

Model: `Model/Copy.lean`. Object identity is the heap index, so "shares no Buildable,
container or tag set" is a statement about indices: the deep copy of a heap of size `n` lives
entirely at indices ≥ n and refers only to indices ≥ n, while the original keeps its indices
and contents. "Editing the copy never changes what the original reports" is the frame theorem
`C07_original_stable`: *whatever* is done to objects at indices ≥ n, every path query from an
original object answers as before. Tag sets are values inside the objects of the model (the
Python code must copy the `set` objects to get this; the correspondence check is what looks at
the identity of the real tag sets, argument dicts and history lists).
Single-Buildable edit histories after a copy are covered by the ArgStore model (the
correspondence of this property's flat stage).
-/
import FiddleModel.Lemmas.CopyL

namespace Fiddle

/-- The original is untouched by the copy: same objects at the same indices. -/
theorem C07_deepcopy_keeps_original (h : Heap) (i : Nat) (hi : i < h.length) :
    (h.deepcopy)[i]? = h[i]? := deepcopy_orig h i hi

/-- Faithful, object by object: the copy of object `i` has the same kind, callable, Buildable
    type, signature, tags, default objects and argument keys as object `i` ... -/
theorem C07_deepcopy_same_node (h : Heap) (i : Nat) (o : GObj) (ho : h[i]? = some o) :
    ∃ o', (h.deepcopy)[i + h.length]? = some o' ∧ o'.kind = o.kind ∧ o'.ty = o.ty ∧
      o'.bk = o.bk ∧ o'.sig = o.sig ∧ o'.tags = o.tags ∧
      o'.children.map (·.1) = o.children.map (·.1) := by
  refine ⟨shiftObj h.length o, by rw [deepcopy_copy, ho]; rfl, rfl, rfl, rfl, rfl, rfl, ?_⟩
  simp [shiftObj, List.map_map, Function.comp]

/-- ... and path for path: following any path in the copy leads to the copy of what the same
    path leads to in the original (identical arguments *and* identical sharing: two paths meet
    in the copy exactly when they meet in the original). -/
theorem C07_deepcopy_faithful (h : Heap) (root : GVal) (p : Path) :
    followPath h.deepcopy (shiftVal h.length root) p =
      (followPath h root p).map (shiftVal h.length) := followPath_deepcopy h p root

theorem shiftVal_injective (n : Nat) (a b : GVal) (e : shiftVal n a = shiftVal n b) : a = b := by
  cases a <;> cases b <;> simp [shiftVal] at e ⊢ <;> omega

/-- same sharing, stated outright -/
theorem C07_deepcopy_same_sharing (h : Heap) (root : GVal) (p q : Path) :
    followPath h.deepcopy (shiftVal h.length root) p = followPath h.deepcopy (shiftVal h.length root) q ↔
      followPath h root p = followPath h root q := by
  rw [C07_deepcopy_faithful, C07_deepcopy_faithful]
  constructor
  · intro e
    cases hp : followPath h root p <;> cases hq : followPath h root q <;> simp [hp, hq] at e ⊢
    exact shiftVal_injective _ _ _ e
  · intro e; rw [e]

/-- Independent: an object of the copy refers only to objects of the copy. -/
theorem C07_deepcopy_disjoint (h : Heap) (i : Nat) (o' : GObj)
    (ho : (h.deepcopy)[i + h.length]? = some o') (c : PElem × GVal) (hc : c ∈ o'.children)
    (j : Nat) (hj : c.2 = .ref j) : h.length ≤ j := by
  rw [deepcopy_copy] at ho
  cases hi : h[i]? with
  | none => simp [hi] at ho
  | some o =>
    simp only [hi, Option.map_some, Option.some.injEq] at ho
    subst ho
    simp only [shiftObj, List.mem_map] at hc
    obtain ⟨c0, _, rfl⟩ := hc
    cases h0 : c0.2 with
    | atom t => simp [h0, shiftVal] at hj
    | ref k => simp [h0, shiftVal] at hj; omega

/-- Editing a copy — any change whatsoever to objects allocated after the original — never
    changes what the original reports: every path from an original object gives the same
    answer. -/
theorem C07_original_stable (h h2 : Heap) (wf : h.WellFormed)
    (hag : ∀ i, i < h.length → h2[i]? = h[i]?) (i : Nat) (hi : i < h.length) (p : Path) :
    followPath h2 (.ref i) p = followPath h (.ref i) p :=
  followPath_agree h h2 wf h.length hag p (.ref i) (by intro k hk; cases hk; exact hi)

/-- Shallow copies (`copy.copy`, `copy_with`, `cast`): one new top-level Buildable; the
    argument values themselves stay shared (same indices), tags and callable are kept, the
    Buildable type is the requested one for a cast. -/
theorem C07_shallow_copy (h : Heap) (i : Nat) (bk : Option String) (o : GObj) (ho : h[i]? = some o) :
    ∃ o', (h.shallowCopy i bk)[h.length]? = some o' ∧ o'.children = o.children ∧
      o'.tags = o.tags ∧ o'.ty = o.ty ∧ o'.sig = o.sig ∧ o'.bk = bk.getD o.bk ∧
      ∀ k, k < h.length → (h.shallowCopy i bk)[k]? = h[k]? :=
  ⟨_, shallowCopy_new h i bk o ho, rfl, rfl, rfl, rfl, rfl, fun k hk => shallowCopy_orig h i bk k hk⟩

/-- ... and its arguments and tags can then be edited without affecting the original: the new
    object is a different object (`h.length ≠ i`), so the frame theorem applies. -/
theorem C07_shallow_copy_is_new (h : Heap) (i : Nat) (o : GObj) (ho : h[i]? = some o) :
    i < h.length := (List.getElem?_eq_some_iff.mp ho).1

/-! ## Non-vacuity -/

private def g : Heap :=
  [ { kind := .list, children := [(.index 0, .atom "1")] },
    { kind := .cfg, ty := "f", bk := "Config", children := [(.attr "a", .ref 0), (.attr "b", .ref 0)],
      tags := [(.name "a", [2])] } ]

example : g.WellFormed ∧
    (g.deepcopy)[3]?.map (·.children) = some [(.attr "a", .ref 2), (.attr "b", .ref 2)] ∧
    followPath g.deepcopy (.ref 3) [.attr "a", .index 0] = some (.atom "1") :=
  ⟨Heap.wellFormed_of_B g (by decide), by decide, by decide⟩

end Fiddle
