import FiddleModel.Model.Graph
namespace Fiddle
theorem C07_placeholder : True := trivial
end Fiddle
