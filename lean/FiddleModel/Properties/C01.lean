/-
C01 — build(Config(f, …)) calls f with exactly the configured arguments.

Model: `Model/ArgStore.lean` (`toArgsKwargs` = `transform_to_args_kwargs`, as repaired by the
`fix:` commit for positional gaps) and `Model/Call.lean` (`pyCall`, `buildCall`, `direct`).
Lemmas: `Lemmas/BuildArgs.lean`.
-/
import FiddleModel.Lemmas.BuildArgs
import FiddleModel.Model.Call
import FiddleModel.Lemmas.Basic

namespace Fiddle
open Sig

/-- `*args` presence flag and run, as `transform_to_args_kwargs` computes them. -/
def varPresent (s : Sig) (d : Dict Val) : Bool :=
  match s.vpStart with
  | some i => d.contains (.idx i)
  | none => false

def varArgs (s : Sig) (d : Dict Val) : List Val :=
  match s.vpStart with
  | some st => varRun d d.length st
  | none => []

/-- **Positional arguments are aligned with their parameters.** Whenever building succeeds in
    forming the call, the positional list is `front ++ var`: `front`, followed by the trailing
    positional parameters that are not passed (all unset), is exactly what each
    positional-mode parameter should receive (its own stored value, or its own default for a
    slot that had to be filled); `var` is the contiguous `*args` run; and with a non-empty
    `*args` no positional slot is left out. -/
theorem C01_positional_aligned (s : Sig) (d : Dict Val) (wf : ViewWF s)
    (pos : List Val) (kw : Dict Val) (h : s.toArgsKwargs d false false = .ok (pos, kw)) :
    ∃ front sk', pos = front ++ varArgs s d ∧
      front.map some ++ sk'.map dfltOpt = expectedSlots false (varPresent s d) d s 0 ∧
      (varArgs s d ≠ [] → sk' = []) :=
  toArgsKwargs_aligned s d false wf pos kw h _ rfl _ rfl

/-- **Never bound to a different parameter**: the j-th positional value passed to the callable
    is the value the j-th positional-mode parameter should receive. -/
theorem C01_never_misbinds (s : Sig) (d : Dict Val) (wf : ViewWF s)
    (pos : List Val) (kw : Dict Val) (h : s.toArgsKwargs d false false = .ok (pos, kw)) :
    ∃ front, pos = front ++ varArgs s d ∧
      ∀ j (hj : j < front.length),
        (expectedSlots false (varPresent s d) d s 0)[j]? = some (some front[j]) := by
  obtain ⟨front, sk', hp, he, _⟩ := C01_positional_aligned s d wf pos kw h
  refine ⟨front, hp, ?_⟩
  intro j hj
  rw [← he, List.getElem?_append_left (by simpa using hj)]
  simp [hj]

/-- **A required slot is never skipped over**: if the call can be formed, a required unset
    positional-mode parameter is not followed by any passed positional value — and with a
    non-empty `*args` there is no such parameter at all. Contrapositive: otherwise
    `transform_to_args_kwargs` raises. -/
theorem C01_required_gap_raises (s : Sig) (d : Dict Val) (wf : ViewWF s)
    (j : Nat) (hreq : (expectedSlots false (varPresent s d) d s 0)[j]? = some none)
    (hlater : (∃ j', j < j' ∧ ∃ v, (expectedSlots false (varPresent s d) d s 0)[j']? = some (some v)
        ∧ ∀ p, dfltOpt p ≠ some v) ∨ varArgs s d ≠ []) :
    ∀ pos kw, s.toArgsKwargs d false false ≠ .ok (pos, kw) := by
  intro pos kw h
  obtain ⟨front, sk', hp, he, hv⟩ := C01_positional_aligned s d wf pos kw h
  rw [← he] at hreq
  -- the `none` slot lies in the skipped suffix
  have hjf : front.length ≤ j := by
    rcases Nat.lt_or_ge j front.length with hlt | hge
    · have hlt' : j < (front.map some).length := by simpa using hlt
      rw [List.getElem?_append_left hlt'] at hreq
      simp at hreq
    · exact hge
  rcases hlater with ⟨j', hjj, v, hv', hnd⟩ | hvar
  · rw [← he] at hv'
    have hj' : (front.map some).length ≤ j' := by simp; omega
    rw [List.getElem?_append_right hj'] at hv'
    -- a skipped slot can only hold a default
    rw [List.getElem?_map] at hv'
    cases hsk : sk'[j' - (front.map some).length]? with
    | none => rw [hsk] at hv'; cases hv'
    | some p => rw [hsk] at hv'; exact hnd p (by simpa using hv')
  · have := hv hvar
    subst this
    simp only [List.map_nil, List.append_nil] at hreq
    rcases Nat.lt_or_ge j (front.map some).length with hlt | hge
    · simp at hlt; omega
    · rw [List.getElem?_eq_none hge] at hreq
      cases hreq


/-- Concrete witnesses (the inputs that failed before the repair): a skipped slot with a
    default is filled with that default; a skipped required slot raises; `build` passes what the
    reported arguments imply (`direct`). -/
example : Sig.toArgsKwargs [⟨"a", .po, true⟩, ⟨"b", .po, true⟩] [(.idx 1, .v 5)] false false
    = .ok ([.d "a", .v 5], []) := by decide

example : Sig.toArgsKwargs [⟨"a", .po, false⟩, ⟨"b", .po, true⟩, ⟨"c", .pk, true⟩]
    [(.idx 1, .v 9)] false false = .error .typeError := by decide

example : buildCall [⟨"a", .po, true⟩, ⟨"b", .po, true⟩] { args := [(.idx 1, .v 5)] }
    = direct [⟨"a", .po, true⟩, ⟨"b", .po, true⟩] [(.idx 1, .v 5)] := by decide

end Fiddle
