import FiddleModel.Model.Call
namespace Fiddle
theorem C01_placeholder : True := trivial
end Fiddle
