/-
C01 — build(Config(f, …)) calls f with exactly the configured arguments.

Model: `Model/ArgStore.lean` (`toArgsKwargs` = `transform_to_args_kwargs`, as repaired by the
`fix:` commit for positional gaps) and `Model/Call.lean` (`pyCall`, `buildCall`, `direct`).
Lemmas: `Lemmas/BuildArgs.lean`.
-/
import FiddleModel.Lemmas.BuildArgs
import FiddleModel.Model.Call
import FiddleModel.Lemmas.Basic
import FiddleModel.Lemmas.BuildKw
import FiddleModel.Lemmas.OrderedKw
import FiddleModel.Lemmas.PyCallPos

namespace Fiddle
open Sig

/-- `*args` presence flag and run, as `transform_to_args_kwargs` computes them. -/
def varPresent (s : Sig) (d : Dict Val) : Bool :=
  match s.vpStart with
  | some i => d.contains (.idx i)
  | none => false

def varArgs (s : Sig) (d : Dict Val) : List Val :=
  match s.vpStart with
  | some st => varRun d d.length st
  | none => []

/-- **Positional arguments are aligned with their parameters.** Whenever building succeeds in
    forming the call, the positional list is `front ++ var`: `front`, followed by the trailing
    positional parameters that are not passed (all unset), is exactly what each
    positional-mode parameter should receive (its own stored value, or its own default for a
    slot that had to be filled); `var` is the contiguous `*args` run; and with a non-empty
    `*args` no positional slot is left out. -/
theorem C01_positional_aligned (s : Sig) (d : Dict Val) (wf : ViewWF s)
    (pos : List Val) (kw : Dict Val) (h : s.toArgsKwargs d false false = .ok (pos, kw)) :
    ∃ front sk', pos = front ++ varArgs s d ∧
      front.map some ++ sk'.map dfltOpt = expectedSlots false (varPresent s d) d s 0 ∧
      (varArgs s d ≠ [] → sk' = []) :=
  toArgsKwargs_aligned s d false wf pos kw h _ rfl _ rfl

/-- **Never bound to a different parameter**: the j-th positional value passed to the callable
    is the value the j-th positional-mode parameter should receive. -/
theorem C01_never_misbinds (s : Sig) (d : Dict Val) (wf : ViewWF s)
    (pos : List Val) (kw : Dict Val) (h : s.toArgsKwargs d false false = .ok (pos, kw)) :
    ∃ front, pos = front ++ varArgs s d ∧
      ∀ j (hj : j < front.length),
        (expectedSlots false (varPresent s d) d s 0)[j]? = some (some front[j]) := by
  obtain ⟨front, sk', hp, he, _⟩ := C01_positional_aligned s d wf pos kw h
  refine ⟨front, hp, ?_⟩
  intro j hj
  rw [← he, List.getElem?_append_left (by simpa using hj)]
  simp [hj]

/-- **A required slot is never skipped over**: if the call can be formed, a required unset
    positional-mode parameter is not followed by any passed positional value — and with a
    non-empty `*args` there is no such parameter at all. Contrapositive: otherwise
    `transform_to_args_kwargs` raises. -/
theorem C01_required_gap_raises (s : Sig) (d : Dict Val) (wf : ViewWF s)
    (j : Nat) (hreq : (expectedSlots false (varPresent s d) d s 0)[j]? = some none)
    (hlater : (∃ j', j < j' ∧ ∃ v, (expectedSlots false (varPresent s d) d s 0)[j']? = some (some v)
        ∧ ∀ p, dfltOpt p ≠ some v) ∨ varArgs s d ≠ []) :
    ∀ pos kw, s.toArgsKwargs d false false ≠ .ok (pos, kw) := by
  intro pos kw h
  obtain ⟨front, sk', hp, he, hv⟩ := C01_positional_aligned s d wf pos kw h
  rw [← he] at hreq
  -- the `none` slot lies in the skipped suffix
  have hjf : front.length ≤ j := by
    rcases Nat.lt_or_ge j front.length with hlt | hge
    · have hlt' : j < (front.map some).length := by simpa using hlt
      rw [List.getElem?_append_left hlt'] at hreq
      simp at hreq
    · exact hge
  rcases hlater with ⟨j', hjj, v, hv', hnd⟩ | hvar
  · rw [← he] at hv'
    have hj' : (front.map some).length ≤ j' := by simp; omega
    rw [List.getElem?_append_right hj'] at hv'
    -- a skipped slot can only hold a default
    rw [List.getElem?_map] at hv'
    cases hsk : sk'[j' - (front.map some).length]? with
    | none => rw [hsk] at hv'; cases hv'
    | some p => rw [hsk] at hv'; exact hnd p (by simpa using hv')
  · have := hv hvar
    subst this
    simp only [List.map_nil, List.append_nil] at hreq
    rcases Nat.lt_or_ge j (front.map some).length with hlt | hge
    · simp at hlt; omega
    · rw [List.getElem?_eq_none hge] at hreq
      cases hreq


/-- Concrete witnesses (the inputs that failed before the repair): a skipped slot with a
    default is filled with that default; a skipped required slot raises; `build` passes what the
    reported arguments imply (`direct`). -/
example : Sig.toArgsKwargs [⟨"a", .po, true⟩, ⟨"b", .po, true⟩] [(.idx 1, .v 5)] false false
    = .ok ([.d "a", .v 5], []) := by decide

example : Sig.toArgsKwargs [⟨"a", .po, false⟩, ⟨"b", .po, true⟩, ⟨"c", .pk, true⟩]
    [(.idx 1, .v 9)] false false = .error .typeError := by decide

example : buildCall [⟨"a", .po, true⟩, ⟨"b", .po, true⟩] { args := [(.idx 1, .v 5)] }
    = direct [⟨"a", .po, true⟩, ⟨"b", .po, true⟩] [(.idx 1, .v 5)] := by decide

/-! ### From the argument lists to what the callable receives -/

/-- **The callable receives the positional list slot by slot.** Whenever `build` forms the call
    (`ordered_arguments` → `transform_to_args_kwargs` → `fn(*pos, **kw)`) and CPython binds it, the
    `j`-th value of the positional list is what the `j`-th positional-mode parameter receives —
    with `C01_positional_aligned`: its own configured value, else its own default — every named
    parameter receives exactly one value, and what lies beyond the positional parameters is
    exactly the `*args` tuple the callable sees. -/
theorem C01_callable_receives_positionals (s : Sig) (hs : (s.positionalParams.map (·.name)).Nodup)
    (c : Cfg) (b : Binding) (h : buildCall s c = .ok b) :
    ∃ oa pos kw, c.orderedArguments s {} = .ok oa ∧ s.toArgsKwargs oa false false = .ok (pos, kw) ∧
      b.var = pos.drop s.positionalParams.length ∧
      b.slots.length = s.namedParams.length ∧
      ∀ p v, (p, v) ∈ s.positionalParams.zip pos → (p.name, v) ∈ b.slots := by
  unfold buildCall at h
  cases hoa : c.orderedArguments s {} with
  | error e => simp [hoa] at h
  | ok oa =>
    simp only [hoa] at h
    cases hta : s.toArgsKwargs oa false false with
    | error e => simp [hta] at h
    | ok r =>
      obtain ⟨pos, kw⟩ := r
      simp only [hta] at h
      cases hkl : kwList kw with
      | error e => simp [hkl] at h
      | ok kws =>
        simp only [hkl] at h
        exact ⟨oa, pos, kw, rfl, hta, pyCall_positional s hs pos kws b h⟩

/-- Non-vacuity: `def f(a, b=…, /, *args)` configured with `a=1` and `*args=(7,)` — the unset `b`
    is passed as its default, `7` arrives in `*args`. -/
example : buildCall [⟨"a", .po, false⟩, ⟨"b", .po, true⟩, ⟨"args", .vp, false⟩]
    { args := [(.idx 0, .v 1), (.idx 2, .v 7)] }
    = .ok { slots := [("a", .v 1), ("b", .d "b")], var := [.v 7], kw := [] } := by decide

/-- **The callable receives the keyword dict name by name.** Whenever `build` forms the call and
    CPython binds it, every keyword naming a keyword-capable parameter is what that parameter
    receives — with `C01_keywords_are_configured`: its own configured value — and the remaining
    keywords are exactly the `**kwargs` dict the callable sees, in the order passed (with
    `C01_keyword_order_kept` / `C01_kwargs_in_configured_order`: the configured order). -/
theorem C01_callable_receives_keywords (s : Sig) (c : Cfg) (b : Binding) (h : buildCall s c = .ok b) :
    ∃ oa pos kw kws, c.orderedArguments s {} = .ok oa ∧ s.toArgsKwargs oa false false = .ok (pos, kw) ∧
      kwList kw = .ok kws ∧
      b.kw = kws.filter (fun kv => !s.isKwParam kv.1) ∧
      ∀ n v, (n, v) ∈ kws → s.isKwParam n = true → (n, v) ∈ b.slots := by
  unfold buildCall at h
  cases hoa : c.orderedArguments s {} with
  | error e => simp [hoa] at h
  | ok oa =>
    simp only [hoa] at h
    cases hta : s.toArgsKwargs oa false false with
    | error e => simp [hta] at h
    | ok r =>
      obtain ⟨pos, kw⟩ := r
      simp only [hta] at h
      cases hkl : kwList kw with
      | error e => simp [hkl] at h
      | ok kws =>
        simp only [hkl] at h
        exact ⟨oa, pos, kw, kws, rfl, hta, hkl, pyCall_keywords s pos kws b h⟩

/-- Non-vacuity: `def f(a, *, k=…, **kwargs)` with `a`, `k` and an extra `z` configured. -/
example : buildCall [⟨"a", .pk, false⟩, ⟨"k", .ko, true⟩, ⟨"kwargs", .vk, false⟩]
    { args := [(.name "a", .v 1), (.name "z", .v 3), (.name "k", .v 2)] }
    = .ok { slots := [("a", .v 1), ("k", .v 2)], var := [], kw := [("z", .v 3)] } := by decide

/-- **Each positional-mode parameter receives its own value** (the two halves joined): whenever
    `build` forms the call and CPython binds it, for every position `j` inside the passed front of
    the positional list, the `j`-th positional-mode parameter of the signature receives exactly what
    slot `j` of the configuration prescribes (`expectedSlots`: its own stored value, else its own
    default) — never the value of a neighbour. -/
theorem C01_each_positional_parameter_receives_its_own (s : Sig) (wf : ViewWF s)
    (hs : (s.positionalParams.map (·.name)).Nodup) (c : Cfg) (b : Binding) (h : buildCall s c = .ok b) :
    ∃ oa front, c.orderedArguments s {} = .ok oa ∧
      b.var = (front ++ varArgs s oa).drop s.positionalParams.length ∧
      ∀ j p, j < front.length → s.positionalParams[j]? = some p →
        ∃ v, (expectedSlots false (varPresent s oa) oa s 0)[j]? = some (some v) ∧ (p.name, v) ∈ b.slots := by
  obtain ⟨oa, pos, kw, hoa, hta, hvar, _, hslots⟩ := C01_callable_receives_positionals s hs c b h
  obtain ⟨front, hp, hexp⟩ := C01_never_misbinds s oa wf pos kw hta
  refine ⟨oa, front, hoa, by rw [hvar, hp], ?_⟩
  intro j p hj hpj
  refine ⟨front[j], hexp j hj, ?_⟩
  apply hslots
  have hjp : j < s.positionalParams.length := (List.getElem?_eq_some_iff.mp hpj).1
  have hjpos : j < pos.length := by rw [hp]; simp; omega
  have hpe : s.positionalParams[j] = p := (List.getElem?_eq_some_iff.mp hpj).2
  have hve : pos[j] = front[j] := by
    simp only [hp]
    exact List.getElem_append_left hj
  rw [List.mem_iff_getElem]
  refine ⟨j, by simp; omega, ?_⟩
  simp [List.getElem_zip, hpe, hve]

/-- **What cannot be bound raises** (the CPython leg of "raises rather than binding any value to a
    different parameter"): more positional values than positional-mode parameters without `*args`, or
    a keyword naming no keyword-capable parameter without `**kwargs`, is a `TypeError` — the call
    `build` makes never drops such a value or moves it to another parameter. -/
theorem C01_unbindable_call_raises (s : Sig) (pos : List Val) (kws : List (String × Val)) :
    (s.positionalParams.length < pos.length → s.hasVp = false → pyCall s pos kws = .error .typeError) ∧
    (∀ n v, (n, v) ∈ kws → s.isKwParam n = false → s.hasVk = false →
      pyCall s pos kws = .error .typeError) :=
  ⟨fun h hv => pyCall_excess_rejected s pos kws h hv,
   fun n v hm hk hvk => pyCall_unknown_keyword_rejected s pos kws n v hm hk hvk⟩

/-- Non-vacuity: `def f(a)` called as `f(1, 2)` and as `f(1, z=2)`. -/
example : pyCall [⟨"a", .pk, false⟩] [.v 1, .v 2] [] = .error .typeError := by decide
example : pyCall [⟨"a", .pk, false⟩] [.v 1] [("z", .v 2)] = .error .typeError := by decide

/-! ### The keyword part -/

/-- **Nothing is invented or renamed**: every keyword argument `build` passes is a configured
    argument, passed under its own name with its own value. -/
theorem C01_keywords_are_configured (s : Sig) (d : Dict Val) (hd : d.NodupKeys)
    (pos : List Val) (kw : Dict Val) (h : s.toArgsKwargs d false false = .ok (pos, kw))
    (k : Key) (v : Val) (hk : kw.get? k = some v) : d.get? k = some v :=
  (toArgsKwargs_kw s d false false hd pos kw h).sub k v hk

/-- **Nothing is lost**: every configured argument whose name is not that of a
    positional-or-keyword parameter - every keyword-only parameter and every `**kwargs` entry -
    is passed by keyword, under its name, with its configured value; and no name is passed twice. -/
theorem C01_keyword_only_and_kwargs_passed (s : Sig) (d : Dict Val) (hd : d.NodupKeys)
    (pos : List Val) (kw : Dict Val) (h : s.toArgsKwargs d false false = .ok (pos, kw))
    (n : String) (v : Val) (hn : ∀ p ∈ s, p.kind = .pk → p.name ≠ n)
    (hv : d.get? (.name n) = some v) : kw.get? (.name n) = some v ∧ kw.NodupKeys :=
  let l := toArgsKwargs_kw s d false false hd pos kw h
  ⟨l.names n v hn hv, l.nodup⟩

/-- **Keyword order is the configured order** (a callable may depend on it, PEP 468): the
    keyword arguments are passed in the relative order in which they appear in the arguments
    handed to `transform_to_args_kwargs`. -/
theorem C01_keyword_order_kept (s : Sig) (d : Dict Val) (hd : d.NodupKeys)
    (pos : List Val) (kw : Dict Val) (h : s.toArgsKwargs d false false = .ok (pos, kw)) :
    kw.Sublist d :=
  (toArgsKwargs_kw s d false false hd pos kw h).order

/-- ... and those arguments list the `**kwargs` entries in the order in which they were
    configured: `ordered_arguments` (as `build` calls it) is the parameter part followed by
    exactly the extra entries of `__arguments__` in insertion order. Together with
    `C01_keyword_order_kept`: `**kwargs` reach the callable in the order they were given. -/
theorem C01_kwargs_in_configured_order (s : Sig) (c : Cfg) (hn : c.args.NodupKeys)
    (hs : (s.map (·.name)).Nodup) (oa : Dict Val) (h : c.orderedArguments s {} = .ok oa) :
    oa = Cfg.oaLoop c.args {} s 0 [] ++ c.args.filter (isExtra s) :=
  orderedArguments_extras s c hn hs oa h

end Fiddle
