/-
C19 — threads working on different configurations do not interfere.

Model: `Model/Threads.lean`: per-thread build guard and tracking switch, one shared atomic
sequence counter, schedules = arbitrary interleavings at operation granularity. Proved for
every schedule, every number of threads and every starting state.

What ties the model to the code:
  * `C19_state_is_thread_local`: the two pieces of state the model keeps per thread ARE
    `threading.local` subclasses in the current source (table regenerated from /repo on every
    run); making either a plain global breaks this obligation;
  * the correspondence run drives real threads under a line-level scheduler and compares each
    thread's observations with the model's `outputsOf` for the same programs.
Not expressible in this model (named, per the brief): pre-emption *inside* an operation —
e.g. between reading and writing a shared cache entry (`signatures._signature_cache`), or a
non-atomic counter; the atomicity of `next(itertools.count)` under the GIL is assumed. The
scheduler-driven run is what explores those; it supports the tie, it does not prove it.
-/
import FiddleModel.Lemmas.ThreadsL
import FiddleModel.Generated.Tables

namespace Fiddle

/-- The per-thread state of the model is thread-local state in the code. -/
theorem C19_state_is_thread_local :
    "fiddle/_src/building.py:_BuildGuardState" ∈ Tables.threadLocalState ∧
    "fiddle/_src/history.py:_TrackingState" ∈ Tables.threadLocalState := by decide

/-- Each thread observes exactly what it would observe running alone (sequence numbers up to
    their order), under every interleaving, and ends in the same local state. -/
theorem C19_noninterference (t : Nat) (sched : List (Nat × TOp)) (s : Sys) :
    (outputsOf t (s.run sched).2).map TOut.erase =
        (outputsOf t (s.run (programOf t sched)).2).map TOut.erase ∧
      (s.run sched).1.threads t = (s.run (programOf t sched)).1.threads t :=
  run_noninterference t sched s s rfl

/-- The nested-build guard acts per thread: whether thread `t`'s `fdl.build` is rejected
    depends only on whether `t` itself is inside a build — other threads' builds never make
    it fail, and its own nested build is always rejected. -/
theorem C19_guard_per_thread (s : Sys) (t : Nat) :
    (s.step t .enterBuild).2 = .nestedBuildRejected ↔ (s.threads t).inBuild = true := by
  unfold Sys.step
  simp only []
  split <;> simp_all

/-- History suspension acts per thread: an edit is logged iff the editing thread's own switch
    is on. -/
theorem C19_tracking_per_thread (s : Sys) (t : Nat) (k : String) :
    (∃ n, (s.step t (.log k)).2 = .logged k n) ↔ (s.threads t).tracking = true := by
  unfold Sys.step
  simp only []
  split <;> simp_all

/-- Sequence numbers are unique across all threads ... -/
theorem C19_sequence_unique (sched : List (Nat × TOp)) (s : Sys) :
    (allSeqs (s.run sched).2).Nodup :=
  (run_seqs sched s).2.1.imp (fun h => Nat.ne_of_lt h)

/-- ... and strictly increasing within each thread. -/
theorem C19_sequence_increasing_per_thread (t : Nat) (sched : List (Nat × TOp)) (s : Sys) :
    (seqsOf (outputsOf t (s.run sched).2)).Pairwise (· < ·) :=
  (run_seqs sched s).2.1.sublist (seqsOf_thread_sublist t _)

/-- Nested `suspend_tracking` restores exactly the flag it found (stack discipline), so after a
    balanced block the thread is back where it started. -/
theorem C19_suspend_resume_restores (s : Sys) (t : Nat) :
    ((s.step t .suspend).1.step t .resume).1.threads t = s.threads t := by
  simp [Sys.step, setThread_same, Sys.setThread]

/-! ## Non-vacuity: two threads, one building, one editing under suspension -/

private def schedEx : List (Nat × TOp) :=
  [(0, .enterBuild), (1, .log "q"), (1, .suspend), (0, .enterBuild), (1, .log "r"),
   (1, .enterBuild), (1, .resume), (0, .exitBuild), (1, .log "q"), (1, .exitBuild)]

example : outputsOf 0 (({} : Sys).run schedEx).2 = [.ok, .nestedBuildRejected, .ok] ∧
    outputsOf 1 (({} : Sys).run schedEx).2 = [.logged "q" 0, .ok, .notLogged, .ok, .ok, .logged "q" 1, .ok] := by
  decide

end Fiddle
