import FiddleModel.Generated.Tables
namespace Fiddle
theorem C19_placeholder : True := trivial
end Fiddle
