/-
C13 — the generated fiddler does what apply_diff does.

Model (`Model/Diff.lean`): `emit` turns a diff into the statements `fiddler_from_diff` writes
for one node (`del cfg.k`, `fdl.remove_tag`, `fdl.update_callable`, `cfg.k = v`,
`fdl.add_tag`) in the order `_cst_for_changes` writes them; `execAll` runs them with the
validation the real statements perform.
The main theorem covers every change list whose changes come in ANY order.
The correspondence run parses the *emitted Python source* back into these statements and runs
the model on them, so variable naming modes, `new_shared_values` handling and the presence or
absence of `old` are exercised on the real generator; nested targets are outside the model.
-/
import FiddleModel.Lemmas.DiffOrder
import FiddleModel.Generated.Tables

namespace Fiddle
open Fiddle.Diff

/-- For EVERY list of changes: the emitted fiddler is `apply_diff` with three coarser phases —
    (DeleteValue, RemoveTag), the callable, (ModifyValue, SetValue, AddTag), each in diff order
    (`regroup`, the order `_cst_for_changes` emits). Whenever that application succeeds the
    fiddler succeeds with exactly the same configuration. -/
theorem C13_fiddler_is_regrouped_apply (sg : Sigs) (chs : List Change) (c r : Flat)
    (hok : ArgsOk sg c) (h : applyAll sg c (regroup chs) = .ok r) :
    execAll sg c (emit chs) = .ok r :=
  fiddler_eq_regrouped_apply sg chs c r hok h

/-- Statement by statement: what is emitted for a change does what the change does. -/
theorem C13_statement_equals_change (sg : Sigs) (c r : Flat) (ch : Change) (hok : ArgsOk sg c)
    (h : apply1 sg c ch = .ok r) : exec1 sg c (emit1 ch) = .ok r :=
  (exec1_emit1 sg c r ch hok h).1

/-- **For every change list in which no argument is both modified and set** (true of every
    diff: a target has one value operation), in whatever order its changes come: whenever
    `apply_diff` (five phases, in the order read from the source) succeeds, the generated
    fiddler succeeds and produces exactly the same configuration. The proof moves commuting
    operations past each other (`Lemmas/DiffOrder.lean`): tag edits commute with argument
    edits, the callable switch with modifications, a new argument with the modification of a
    different one. -/
theorem C13_fiddler_equals_apply_diff (sg : Sigs) (chs : List Change)
    (hMS : ∀ k v k' v', Change.modifyValue k v ∈ chs → Change.setValue k' v' ∈ chs → k ≠ k')
    (c r : Flat) (hok : ArgsOk sg c)
    (h : applyPhases sg Tables.applyOrder chs c = .ok r) :
    execAll sg c (emit chs) = .ok r := by
  have hord : Tables.applyOrder = ["DeleteValue", "RemoveTag", "ModifyValue", "SetValue", "AddTag"] := by
    decide
  rw [hord] at h
  exact fiddler_eq_regrouped_apply sg chs c r hok (regroup_of_phases sg chs hMS c r h)

/-- Special case kept from the first version: for `build_diff`'s own change order the two
    orders are literally the same sequence. -/
theorem C13_fiddler_equals_apply_diff_model_order (sg : Sigs) (old new c r : Flat) (hok : ArgsOk sg c)
    (h : applyPhases sg Tables.applyOrder (flatDiff old new) c = .ok r) :
    execAll sg c (emit (flatDiff old new)) = .ok r := by
  have hord : Tables.applyOrder = ["DeleteValue", "RemoveTag", "ModifyValue", "SetValue", "AddTag"] := by
    decide
  rw [hord, applyPhases_flatDiff] at h
  apply fiddler_eq_regrouped_apply sg _ c r hok
  rw [regroup_flatDiff]; exact h

/-- With C10: the fiddler generated from `build_diff(old, new)` turns `old` into `new`. -/
theorem C13_fiddler_of_build_diff (sg : Sigs) (old new : Flat) (ho : old.Valid sg)
    (hn : new.Valid sg) :
    ∃ r, execAll sg old (emit (flatDiff old new)) = .ok r ∧
      r.fn = new.fn ∧ (∀ k, r.args.get? k = new.args.get? k) ∧
      (∀ n t, t ∈ r.tagsOf n ↔ t ∈ new.tagsOf n) := by
  have hord : Tables.applyOrder = ["DeleteValue", "RemoveTag", "ModifyValue", "SetValue", "AddTag"] := by
    decide
  obtain ⟨r, hr, h1, h2, h3⟩ := flat_roundtrip sg old new ho hn
  rw [← hord] at hr
  exact ⟨r, C13_fiddler_equals_apply_diff_model_order sg old new old r ho.argsOk hr, h1, h2, h3⟩

private def sgEx : Sigs := fun f => if f = "f" then ["a", "c"] else if f = "g" then ["b", "c"] else []
private def oldEx : Flat := { fn := "f", args := [(.name "a", .v 1), (.name "c", .v 3)], tags := [(.name "a", [7])] }
private def newEx : Flat := { fn := "g", args := [(.name "c", .v 4), (.name "b", .v 2)], tags := [(.name "b", [8])] }

example : emit (flatDiff oldEx newEx) =
    [.delAttr "a", .removeTag "a" 7, .updateCallable "g", .assign "c" (.v 4), .assign "b" (.v 2),
     .addTag "b" 8] := by decide

end Fiddle
