import FiddleModel.Generated.Tables
namespace Fiddle
theorem C13_placeholder : True := trivial
end Fiddle
