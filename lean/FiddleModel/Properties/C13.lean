/-
C13 — the generated fiddler does what apply_diff does.

Model (`Model/Diff.lean`): `emit` turns a diff into the statements `fiddler_from_diff` writes
for one node (`del cfg.k`, `fdl.remove_tag`, `fdl.update_callable`, `cfg.k = v`,
`fdl.add_tag`) in the order `_cst_for_changes` writes them; `execAll` runs them with the
validation the real statements perform.
The correspondence run parses the *emitted Python source* back into these statements and runs
the model on them, so variable naming modes, `new_shared_values` handling and the presence or
absence of `old` are exercised on the real generator; nested targets are outside the model.
-/
import FiddleModel.Lemmas.DiffMain
import FiddleModel.Generated.Tables

namespace Fiddle
open Fiddle.Diff

/-- For EVERY list of changes: the emitted fiddler is `apply_diff` with three coarser phases —
    (DeleteValue, RemoveTag), the callable, (ModifyValue, SetValue, AddTag), each in diff order
    (`regroup`, the order `_cst_for_changes` emits). Whenever that application succeeds the
    fiddler succeeds with exactly the same configuration. -/
theorem C13_fiddler_is_regrouped_apply (sg : Sigs) (chs : List Change) (c r : Flat)
    (hok : ArgsOk sg c) (h : applyAll sg c (regroup chs) = .ok r) :
    execAll sg c (emit chs) = .ok r :=
  fiddler_eq_regrouped_apply sg chs c r hok h

/-- Statement by statement: what is emitted for a change does what the change does. -/
theorem C13_statement_equals_change (sg : Sigs) (c r : Flat) (ch : Change) (hok : ArgsOk sg c)
    (h : apply1 sg c ch = .ok r) : exec1 sg c (emit1 ch) = .ok r :=
  (exec1_emit1 sg c r ch hok h).1

/-- For the diffs `build_diff` produces (in the model's change order) the three coarse phases
    and the five phases of `_apply_changes` are the same sequence of operations, so the
    fiddler produces exactly what `apply_diff` produces. That the two groupings agree for a
    diff whose changes come in ANOTHER order is not proved (it needs the independence of
    changes with distinct targets); the correspondence run covers it on the real generator:
    `_partial`. -/
theorem C13_fiddler_equals_apply_diff_partial (sg : Sigs) (old new c r : Flat) (hok : ArgsOk sg c)
    (h : applyPhases sg Tables.applyOrder (flatDiff old new) c = .ok r) :
    execAll sg c (emit (flatDiff old new)) = .ok r := by
  have hord : Tables.applyOrder = ["DeleteValue", "RemoveTag", "ModifyValue", "SetValue", "AddTag"] := by
    decide
  rw [hord, applyPhases_flatDiff] at h
  apply fiddler_eq_regrouped_apply sg _ c r hok
  rw [regroup_flatDiff]; exact h

/-- With C10: the fiddler generated from `build_diff(old, new)` turns `old` into `new`. -/
theorem C13_fiddler_of_build_diff (sg : Sigs) (old new : Flat) (ho : old.Valid sg)
    (hn : new.Valid sg) :
    ∃ r, execAll sg old (emit (flatDiff old new)) = .ok r ∧
      r.fn = new.fn ∧ (∀ k, r.args.get? k = new.args.get? k) ∧
      (∀ n t, t ∈ r.tagsOf n ↔ t ∈ new.tagsOf n) := by
  have hord : Tables.applyOrder = ["DeleteValue", "RemoveTag", "ModifyValue", "SetValue", "AddTag"] := by
    decide
  obtain ⟨r, hr, h1, h2, h3⟩ := flat_roundtrip sg old new ho hn
  rw [← hord] at hr
  exact ⟨r, C13_fiddler_equals_apply_diff_partial sg old new old r ho.argsOk hr, h1, h2, h3⟩

private def sgEx : Sigs := fun f => if f = "f" then ["a", "c"] else if f = "g" then ["b", "c"] else []
private def oldEx : Flat := { fn := "f", args := [(.name "a", .v 1), (.name "c", .v 3)], tags := [(.name "a", [7])] }
private def newEx : Flat := { fn := "g", args := [(.name "c", .v 4), (.name "b", .v 2)], tags := [(.name "b", [8])] }

example : emit (flatDiff oldEx newEx) =
    [.delAttr "a", .removeTag "a" 7, .updateCallable "g", .assign "c" (.v 4), .assign "b" (.v 2),
     .addTag "b" 8] := by decide

end Fiddle
