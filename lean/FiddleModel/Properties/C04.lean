/-
C04 — a built Partial behaves like functools.partial; ArgFactory arguments are fresh per call.

Model: `Model/Partial.lean`. A built partial holds its configured arguments as trees `AV`
(build-time objects with identities, containers, built ArgFactories); one call evaluates the
effective arguments with an allocation counter, so "fresh" = identity allocated during this
call, "uncopied" = build-time identity delivered unchanged. The theorems quantify over every
argument tree, every nesting, every counter value and every sequence of calls.

Carried by the correspondence check only: the agreement of `bindRV` with Python's call
semantics for the signatures of C01 (covered by C01's model) and the positional/keyword split
`_build_partial` performs before the call (the driver runs the model's `toArgsKwargs`).
-/
import FiddleModel.Lemmas.PartialL

namespace Fiddle

/-- An argument that involves no ArgFactory is passed through uncopied — same build-time
    identities at every depth — and evaluating it allocates nothing. -/
theorem C04_no_factory_passthrough (a : AV) (ctr : Nat) (h : a.hasFactory = false) :
    a.invoke ctr = some (a.embed, ctr) ∧ a.embed.freshIds = [] :=
  ⟨AV.invoke_noFactory a ctr h, AV.embed_noFresh a⟩

/-- ... hence every call delivers the very same object for it (nested Configs are built once,
    at build time, and reused). -/
theorem C04_no_factory_same_every_call (a : AV) (c1 c2 : Nat) (h : a.hasFactory = false) :
    (a.invoke c1).map (·.1) = (a.invoke c2).map (·.1) := by
  simp [AV.invoke_noFactory a _ h]

/-- Every identity allocated while evaluating an argument lies in this evaluation's own
    window of the allocation counter. -/
theorem C04_fresh_in_window (a : AV) (ctr : Nat) (v : RV) (ctr' : Nat)
    (h : a.invoke ctr = some (v, ctr')) : ctr ≤ ctr' ∧ ∀ n ∈ v.freshIds, ctr ≤ n ∧ n < ctr' :=
  AV.invoke_range a ctr v ctr' h

/-- An ArgFactory is evaluated anew by every evaluation: the result is a new object whose
    identity is allocated now, later than everything allocated for its own arguments. -/
theorem C04_factory_new_object (fn : String) (sig : Sig) (args : List AV) (kw : List (String × AV))
    (ctr : Nat) (v : RV) (ctr' : Nat) (h : (AV.fac fn sig args kw).invoke ctr = some (v, ctr')) :
    ∃ n slots var kwr, v = .obj n fn slots var kwr ∧ ctr ≤ n ∧ ctr' = n + 1 ∧
      ∀ m ∈ RV.freshIdsKw slots ++ RV.freshIdsL var ++ RV.freshIdsKw kwr, ctr ≤ m ∧ m < n := by
  have hr := AV.invoke_range _ _ _ _ h
  simp only [AV.invoke] at h
  split at h
  · cases h
  · rename_i as ctr1 h1
    split at h
    · cases h
    · rename_i ks ctr2 h2
      split at h
      · cases h
      · rename_i slots var kwr hb
        simp only [Option.some.injEq, Prod.mk.injEq] at h
        obtain ⟨rfl, rfl⟩ := h
        obtain ⟨l1, r1⟩ := AV.invokeArgs_range args ctr as ctr1 h1
        obtain ⟨l2, r2⟩ := AV.invokeKw_range kw ctr1 ks ctr2 h2
        refine ⟨ctr2, slots, var, kwr, rfl, by omega, rfl, ?_⟩
        intro m hm
        have := bindRV_ids sig as ks slots var kwr hb m hm
        rcases List.mem_append.mp this with hm | hm
        · have := r1 m hm; omega
        · have := r2 m hm; omega

/-- A container that contains an ArgFactory (at any depth) is rebuilt by every evaluation. -/
theorem C04_container_with_factory_copied (i : Nat) (kind : NKind) (ty : String)
    (ch : List (PElem × AV)) (hf : AV.hasFactoryL ch = true) (ctr : Nat) (v : RV) (ctr' : Nat)
    (h : (AV.cont i kind ty ch).invoke ctr = some (v, ctr')) :
    ∃ n rs, v = .cont (.fresh n) kind ty rs ∧ ctr ≤ n ∧ ctr' = n + 1 := by
  simp only [AV.invoke, hf, if_true] at h
  split at h
  · cases h
  · rename_i rs ctr1 h1
    simp only [Option.some.injEq, Prod.mk.injEq] at h
    obtain ⟨rfl, rfl⟩ := h
    exact ⟨ctr1, rs, rfl, (AV.invokeCh_range ch ctr rs ctr1 h1).1, rfl⟩

/-- A container with no ArgFactory below it keeps its build-time identity. -/
theorem C04_container_without_factory_kept (i : Nat) (kind : NKind) (ty : String)
    (ch : List (PElem × AV)) (hf : AV.hasFactoryL ch = false) (ctr : Nat) :
    (AV.cont i kind ty ch).invoke ctr = some (.cont (.build i) kind ty (AV.embedCh ch), ctr) := by
  have := AV.invoke_noFactory (.cont i kind ty ch) ctr (by simpa [AV.hasFactory] using hf)
  simpa [AV.embed] using this

/-- Ids delivered by any call of a sequence started at `ctr` are ≥ `ctr`. -/
theorem calls_lower (p : BuiltPartial) : ∀ (cs : List CallArgs) (ctr : Nat),
    ∀ r ∈ p.calls cs ctr, ∀ v, r = some v → ∀ n ∈ v.freshIds, ctr ≤ n
  | [], _, r, hr, _, _, _, _ => by simp [BuiltPartial.calls] at hr
  | c :: cs, ctr, r, hr, v, hv, n, hn => by
    simp only [BuiltPartial.calls] at hr
    split at hr
    · rcases List.mem_cons.mp hr with rfl | hr
      · cases hv
      · exact calls_lower p cs ctr r hr v hv n hn
    · rename_i v1 ctr1 h1
      have hw := AV.invoke_range _ _ _ _ h1
      rcases List.mem_cons.mp hr with rfl | hr
      · cases hv; exact (hw.2 n hn).1
      · have := calls_lower p cs ctr1 r hr v hv n hn; omega

/-- Objects created for different calls of the built partial are distinct: no identity
    allocated during one call is delivered by another call — for every call sequence. -/
theorem C04_calls_share_no_fresh_object (p : BuiltPartial) : ∀ (cs : List CallArgs) (ctr : Nat),
    List.Pairwise (fun a b => ∀ va vb, a = some va → b = some vb →
      ∀ n, n ∈ va.freshIds → n ∉ vb.freshIds) (p.calls cs ctr)
  | [], _ => by simp [BuiltPartial.calls]
  | c :: cs, ctr => by
    simp only [BuiltPartial.calls]
    split
    · refine List.pairwise_cons.mpr ⟨?_, C04_calls_share_no_fresh_object p cs ctr⟩
      intro b _ va vb ha; cases ha
    · rename_i v1 ctr1 h1
      refine List.pairwise_cons.mpr ⟨?_, C04_calls_share_no_fresh_object p cs ctr1⟩
      intro b hb va vb ha hvb n hn hn'
      cases ha
      have hw := AV.invoke_range _ _ _ _ h1
      have := calls_lower p cs ctr1 b hb vb hvb n hn'
      have := (hw.2 n hn).2
      omega

/-- Call-time keyword arguments override configured ones; the others are kept. -/
theorem C04_call_keywords_override (cfg call : List (String × AV)) (k : String) :
    (overrideKw cfg call).find? (fun kv => kv.1 == k) =
      if call.any (fun c => c.1 == k) then call.find? (fun kv => kv.1 == k)
      else cfg.find? (fun kv => kv.1 == k) := by
  unfold overrideKw
  rw [List.find?_append]
  by_cases hc : call.any (fun c => c.1 == k) = true
  · have : (cfg.filter (fun kv => !call.any (fun c => c.1 == kv.1))).find? (fun kv => kv.1 == k)
        = none := by
      rw [List.find?_eq_none]
      intro x hx
      simp only [List.mem_filter] at hx
      intro hk
      have e : x.1 = k := by simpa using hk
      rw [e] at hx
      simp [hc] at hx
    simp [this, hc]
  · have hn : call.find? (fun kv => kv.1 == k) = none := by
      rw [List.find?_eq_none]
      intro x hx hk
      apply hc
      exact List.any_eq_true.mpr ⟨x, hx, hk⟩
    simp only [hc, hn, Option.or_none]
    rw [List.find?_filter]
    simp only [Bool.false_eq_true, if_false]
    congr 1
    funext kv
    by_cases e : kv.1 = k
    · subst e; simp [hc]
    · simp [e]

/-! ## Non-vacuity: a list holding a factory next to a shared plain container. -/

private def argTree : AV :=
  .cont 7 .list "" [(.index 0, .fac "f" [] [] []), (.index 1, .cont 3 .dict "" [(.key "k", .leaf 1 "x")])]

example : argTree.hasFactory = true ∧
    argTree.invoke 10 = some
      (.cont (.fresh 11) .list ""
        [(.index 0, .obj 10 "f" [] [] []),
         (.index 1, .cont (.build 3) .dict "" [(.key "k", .leaf 1 "x")])], 12) := by
  refine ⟨by decide, ?_⟩
  simp [argTree, AV.invoke, AV.invokeCh, AV.invokeArgs, AV.invokeKw,
    AV.hasFactoryL, AV.hasFactory, bindRV, pyCall, Sig.positionalParams, Sig.hasVp,
    pyCall.kwLoop, pyCall.fill, Sig.namedParams]

end Fiddle
