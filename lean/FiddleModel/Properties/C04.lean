import FiddleModel.Model.Partial
namespace Fiddle
theorem C04_placeholder : True := trivial
end Fiddle
