/-
C16 — argument history is a faithful, ordered log of edits.

Property theorems only; helper lemmas live in `Lemmas/`.  The model is `Model/ArgStore.lean`
(`Cfg.log`, `Cfg.setValue`, `Cfg.delValue` and every edit built from them).
-/
import FiddleModel.Lemmas.History
import FiddleModel.Model.Call
import FiddleModel.Model.Location
import FiddleModel.Lemmas.HistoryT
import FiddleModel.Generated.Tables

namespace Fiddle

/-- Invariant carried through every history: the structural history invariants, and the
    tracking switch is (still) on. -/
def TrackedInv (c : Cfg) : Prop := HistInv c ∧ c.tracking = true

theorem TrackedInv_closed : Cfg.Closed TrackedInv where
  set := by
    intro c k v ⟨hi, ht⟩
    refine ⟨HistInv_closed.set c k v hi, ?_⟩
    cases v with
    | tv ts inner =>
      simp only [Cfg.setValue]
      have h1 : (if ts.isEmpty then c else
          ({ c with tags := c.tags.set k (tagUnion ((c.tags.get? k).getD []) ts) } : Cfg).log k
            (.tags (tagUnion ((c.tags.get? k).getD []) ts))).tracking = true := by
        split
        · exact ht
        · rw [log_tracking]; exact ht
      generalize (if ts.isEmpty then c else _) = c1 at h1
      cases inner with
      | none => exact h1
      | some n =>
        show (({ c1 with args := c1.args.set k (.v n) } : Cfg).log k (.val (.v n))).tracking = true
        rw [log_tracking]; exact h1
    | v n => simp only [Cfg.setValue]; rw [log_tracking]; exact ht
    | d n => simp only [Cfg.setValue]; rw [log_tracking]; exact ht
    | nov => simp only [Cfg.setValue]; rw [log_tracking]; exact ht
  del := by
    intro c k c' h ⟨hi, ht⟩
    refine ⟨HistInv_closed.del c k c' h hi, ?_⟩
    unfold Cfg.delValue at h
    split at h
    · cases h; rw [log_tracking]; exact ht
    · cases h

/-- **Last entry is the current value.** After ANY history of attribute / index / slice edits
    (valid or rejected, of any length) applied to a state satisfying the invariant, every key's
    last NEW_VALUE entry is its current value, or the deletion marker (or no entry at all) if
    the key is unset. -/
theorem C16_last_is_current (s : Sig) (c0 : Cfg) (ops : List Op) (h0 : TrackedInv c0) :
    ValuesFaithful (Cfg.run s c0 ops) :=
  let h := Cfg.run_closed TrackedInv_closed s ops c0 h0
  h.1.vals h.2

/-- **Sequence numbers** are strictly increasing in program order and all lie below the
    counter, after any history, with tracking on or off or toggled in between. -/
theorem C16_seq_increasing (s : Sig) (c0 : Cfg) (ops : List Op) (h0 : HistInv c0) :
    SeqOK (Cfg.run s c0 ops) :=
  (Cfg.run_closed HistInv_closed s ops c0 h0).seq

/-- … hence pairwise distinct. -/
theorem C16_seq_unique (s : Sig) (c0 : Cfg) (ops : List Op) (h0 : HistInv c0) :
    ((Cfg.run s c0 ops).hist.map (·.seq)).Nodup := by
  have h := (C16_seq_increasing s c0 ops h0).1
  rw [List.nodup_iff_pairwise_ne, List.pairwise_map]
  exact h.imp (fun hlt => Nat.ne_of_lt hlt)

/-- **Suspended edits are silent**: with tracking off, no history of edits appends an entry
    or draws a sequence number. -/
theorem C16_suspended_silent (s : Sig) (c0 : Cfg) (ops : List Op) (h0 : c0.tracking = false) :
    (Cfg.run s c0 ops).hist = c0.hist ∧ (Cfg.run s c0 ops).ctr = c0.ctr := by
  have h := Cfg.run_closed (Silent_closed c0.hist c0.ctr) s ops c0 ⟨h0, rfl, rfl⟩
  exact ⟨h.2.1, h.2.2⟩

/-- **The constructor establishes the invariant** (so the hypotheses above are met by every
    freshly constructed Buildable, whatever its signature and arguments). -/
theorem C16_constructed_inv (s : Sig) (args : List Val) (kwargs : List (String × Val))
    (ctr : Nat) (ann : List (String × List Nat)) (c : Cfg)
    (h : construct s args kwargs ctr true ann = some c) : TrackedInv c := by
  unfold construct at h
  split at h
  · cases h
  · rename_i d hd
    cases h
    have base : TrackedInv (({ ctr := ctr, tracking := true } : Cfg).log (.name "__fn_or_cls__") (.val (.v 0))) := by
      refine ⟨⟨?_, ?_, ?_⟩, ?_⟩
      · rw [log_args]; simp [Dict.NodupKeys, Dict.keys]
      · exact SeqOK_log _ _ _ ⟨List.Pairwise.nil, by intro e he; cases he⟩
      · intro _ k hk
        rw [log_args, log_hist_on _ _ _ rfl]
        simp only [lastValue_append, HVal.isValue]
        have hk' : ¬ Key.name "__fn_or_cls__" = k := fun e => hk (e ▸ rfl)
        simp [Dict.get?, hk', lastValue]
      · rw [log_tracking]
    generalize (({ ctr := ctr, tracking := true } : Cfg).log (.name "__fn_or_cls__") (.val (.v 0))) = c0 at base
    clear hd
    have h1 : TrackedInv (d.foldl (fun c kv => c.setValue kv.1 kv.2) c0) := by
      induction d generalizing c0 with
      | nil => exact base
      | cons kv r ih => exact ih _ (TrackedInv_closed.set c0 kv.1 kv.2 base)
    generalize d.foldl (fun c kv => c.setValue kv.1 kv.2) c0 = c1 at h1
    unfold annotate
    induction ann generalizing c1 with
    | nil => exact h1
    | cons nt r ih => exact ih _ (TrackedInv_closed.set c1 _ _ h1)

/-! ### The full edit alphabet: C03 edits, tag edits, `materialize_defaults`, `assign`, `copy_with`, `update_callable` -/

/-- **Last entry is the current value AND the current tag set.** After ANY history over the
    full alphabet (`Op2`: attribute / index / slice edits, `add_tag`, `remove_tag`, `clear_tags`,
    `set_tags`, `materialize_defaults`, `assign`, `copy_with`, `update_callable` - which switches
    the signature later edits are interpreted against; valid or rejected, of any length) with tracking
    on, every key's last NEW_VALUE entry is its current value (or the deletion marker / nothing
    if unset) and every key's last UPDATE_TAGS entry is its current tag set. -/
theorem C16_last_is_current_all_edits (s : Sig) (c0 : Cfg) (ops : List Op2) (h0 : TrackedInvT c0) :
    ValuesFaithful (Cfg.run2 (s, c0) ops).2 ∧ TagsFaithfulT (Cfg.run2 (s, c0) ops).2 := by
  have h := Cfg.run2_closed TrackedInvT_core.toClosedT ops (s, c0) h0
  exact ⟨h.1.base.vals h.2, h.1.tagsF h.2⟩

/-- Sequence numbers stay strictly increasing (hence unique) and below the counter over the
    full alphabet, whether or not tracking is on. -/
theorem C16_seq_increasing_all_edits (s : Sig) (c0 : Cfg) (ops : List Op2) (h0 : HistInvT c0) :
    SeqOK (Cfg.run2 (s, c0) ops).2 :=
  (Cfg.run2_closed HistInvT_core.toClosedT ops (s, c0) h0).base.seq

/-- With tracking off, no history over the full alphabet appends an entry or draws a number. -/
theorem C16_suspended_silent_all_edits (s : Sig) (c0 : Cfg) (ops : List Op2)
    (h0 : c0.tracking = false) :
    (Cfg.run2 (s, c0) ops).2.hist = c0.hist ∧ (Cfg.run2 (s, c0) ops).2.ctr = c0.ctr := by
  have h := Cfg.run2_closed (Silent_core c0.hist c0.ctr).toClosedT ops (s, c0) ⟨h0, rfl, rfl⟩
  exact ⟨h.2.1, h.2.2⟩

/-- The constructor (incl. TaggedValue arguments and `Annotated` tags) establishes the complete
    invariant: the hypotheses above are met by every freshly constructed Buildable. -/
theorem C16_constructed_inv_all (s : Sig) (args : List Val) (kwargs : List (String × Val))
    (ctr : Nat) (ann : List (String × List Nat)) (c : Cfg)
    (h : construct s args kwargs ctr true ann = some c) : TrackedInvT c := by
  unfold construct at h
  split at h
  · cases h
  · rename_i d hd
    cases h
    have base : TrackedInvT (({ ctr := ctr, tracking := true } : Cfg).log (.name "__fn_or_cls__") (.val (.v 0))) := by
      refine ⟨⟨⟨?_, ?_, ?_⟩, ?_⟩, ?_⟩
      · rw [log_args]; simp [Dict.NodupKeys, Dict.keys]
      · exact SeqOK_log _ _ _ ⟨List.Pairwise.nil, by intro e he; cases he⟩
      · intro _ k hk
        rw [log_args, log_hist_on _ _ _ rfl]
        simp only [lastValue_append, HVal.isValue]
        have hk' : ¬ Key.name "__fn_or_cls__" = k := fun e => hk (e ▸ rfl)
        simp [Dict.get?, hk', lastValue]
      · intro _ k ts hl
        rw [log_hist_on _ _ _ rfl] at hl
        simp [lastTags_append, HVal.isValue, lastTags] at hl
      · rw [log_tracking]
    generalize (({ ctr := ctr, tracking := true } : Cfg).log (.name "__fn_or_cls__") (.val (.v 0))) = c0 at base
    clear hd
    have hset := TrackedInvT_core.toClosedT.base.set
    have h1 : TrackedInvT (d.foldl (fun c kv => c.setValue kv.1 kv.2) c0) := by
      induction d generalizing c0 with
      | nil => exact base
      | cons kv r ih => exact ih _ (hset c0 kv.1 kv.2 base)
    generalize d.foldl (fun c kv => c.setValue kv.1 kv.2) c0 = c1 at h1
    unfold annotate
    induction ann generalizing c1 with
    | nil => exact h1
    | cons nt r ih => exact ih _ (hset c1 _ _ h1)

/-- Non-vacuity: a constructed Buildable, tag edits on a set and on an unset parameter,
    `materialize_defaults` in between: `q` ends with exactly the tags given by `set_tags`. -/
example : ∃ c0, construct [⟨"p", .pk, true⟩, ⟨"q", .pk, true⟩] [] [("p", .v 1)] = some c0 ∧
    (Cfg.run2 ([⟨"p", .pk, true⟩, ⟨"q", .pk, true⟩], c0)
      [.addTag (.name "p") 3, .setTags (.name "q") [1, 2], .materialize,
       .updateCallable [⟨"q", .pk, true⟩, ⟨"z", .ko, false⟩] true,
       .removeTag (.name "q") 2, .copyWith [("z", .v 5)]]).2.tagsOf (.name "q") = [1] := by
  refine ⟨_, rfl, ?_⟩
  decide

/-- **History never influences building**: what `build` passes to the callable is a function
    of the state with history, counter and tracking switch erased. -/
theorem C16_never_observed (s : Sig) (c : Cfg) (h : List HEntry) (n : Nat) (t : Bool) :
    buildCall s { c with hist := h, ctr := n, tracking := t } = buildCall s c := rfl

/-! ### Locations -/

/-- If every frame between the history-entry constructor and the user's frame lies in an
    excluded file and the user's frame does not, the recorded location is the user's frame. -/
theorem C16_location (excl : List String) (inner : List Frame) (user : Frame) (outer : List Frame)
    (hin : ∀ f ∈ inner, excluded excl f = true) (hu : excluded excl user = false) :
    locate excl (inner ++ user :: outer) = some user := by
  induction inner with
  | nil => simp [locate, hu]
  | cons f r ih =>
    have hf := hin f (by simp)
    simp only [List.cons_append, locate, hf, if_true]
    exact ih (fun g hg => hin g (by simp [hg]))

/-- Modules on the call path of a direct edit that the current source does NOT exclude from
    location attribution.  This is the open finding C16/tagging-location (known_findings.json):
    `fdl.add_tag` & co. are attributed to `fiddle/_src/tagging.py`; an existing unit test pins
    that behaviour, so it is recorded rather than repaired. -/
def knownUnexcludedModules : List String := ["fiddle/_src/tagging.py"]

/-- Table obligation, re-checked against the regenerated tables on every run: every module
    that calls `History.add_*` (a frame that can sit between a direct edit and the entry) is in
    `history._exclude_locations`, except the recorded finding. -/
theorem C16_edit_modules_excluded_partial :
    ∀ m ∈ Tables.historyCallModules, m ∈ Tables.excludeLocations ∨ m ∈ knownUnexcludedModules := by
  decide

/-- `history.py` itself (where the entry constructor and the provider live) is excluded. -/
theorem C16_history_module_excluded : "fiddle/_src/history.py" ∈ Tables.excludeLocations := by
  decide

/-- Code locations allowed to write a Buildable's `__arguments__` directly: the two logging
    hooks, the two constructors of a *fresh* store (`__init_callable__`, `__unflatten__`), and
    three passes that edit private rebuilt copies (code generation IR, printing). Everything
    else must go through the hooks, which is what `Cfg.Closed` / `Cfg.run_closed` model. -/
def allowedStoreWriters : List String := [
  "fiddle/_src/config.py:_arguments_set_value",
  "fiddle/_src/config.py:_arguments_del_value",
  "fiddle/_src/config.py:__init_callable__",
  "fiddle/_src/config.py:__unflatten__",
  "fiddle/_src/codegen/auto_config/make_symbolic_references.py:traverse",
  "fiddle/_src/codegen/newcg_symbolic_references.py:traverse",
  "fiddle/_src/printing.py:_rearrange_buildable_args"]

/-- Table obligation (regenerated from the source on every run): no other site writes the
    argument store, so every store write is logged. -/
theorem C16_all_writes_logged : ∀ w ∈ Tables.storeWriteSites, w ∈ allowedStoreWriters := by
  decide

/-- One change of a stored value appends exactly one entry, carrying the next sequence
    number, for that key (plain values, tracking on). -/
theorem C16_one_entry_per_set (c : Cfg) (k : Key) (n : Nat) (ht : c.tracking = true) :
    (c.setValue k (.v n)).hist = c.hist ++ [⟨c.ctr, k, .val (.v n)⟩]
      ∧ (c.setValue k (.v n)).ctr = c.ctr + 1 := by
  simp [Cfg.setValue, Cfg.log, ht]

theorem C16_one_entry_per_del (c c' : Cfg) (k : Key) (ht : c.tracking = true)
    (h : c.delValue k = .ok c') : c'.hist = c.hist ++ [⟨c.ctr, k, .deleted⟩] := by
  unfold Cfg.delValue at h
  split at h
  · cases h; simp [Cfg.log, ht]
  · cases h

/-! ### Non-vacuity -/

example : TrackedInv (({ } : Cfg)) := by
  refine ⟨⟨?_, ?_, ?_⟩, rfl⟩
  · simp [Dict.NodupKeys, Dict.keys]
  · exact ⟨List.Pairwise.nil, by intro e he; cases he⟩
  · intro _ k _; simp [Dict.get?, lastValue]

example : (construct [⟨"a", .po, true⟩, ⟨"p", .pk, false⟩, ⟨"args", .vp, false⟩] [.v 1, .v 2, .v 3] []).isSome = true := by
  decide

end Fiddle
