/-
C12 — generated Python code reproduces the configuration.

Model (`Model/Codegen.lean`): the statement language of an emitted fixture (assignments of
expressions to variables, `return`), expressions being literals, variables and
object-creating constructor calls / container displays, with its execution semantics over
heaps (one new object per evaluated constructor, in evaluation order).

The correspondence run parses the module text the real generators emit (plain `fdl.Config`
generator and auto_config generator, all settings of the sub-fixture, complexity and history
options) into this language, executes it with `CProg.run` and compares the resulting heap
with the input configuration — so naming, inlining and sub-fixture extraction are exercised
on the real code, while the theorems are about the execution semantics and about one
generator of the model:
  * `straightLine` (every object its own variable — the complexity-threshold-0 shape) followed
    by execution reproduces the configuration *exactly*: same objects at the same indices,
    hence same callables, arguments, tags and sharing;
  * executing any program only allocates (never changes an existing object), a constructor
    expression always yields a new object, a variable always yields the object it was bound to
    — which is why sharing in the emitted text means sharing in the result and nothing else.
Not proved (`_partial`): that inlining single-use variables (higher thresholds) and moving
sub-graphs into sub-fixtures preserve the result; value expressions for leaf types (enum,
float, complex, bytes, …) are outside the model (the oracle evaluates them on the real code).
-/
import FiddleModel.Lemmas.CodegenL
import FiddleModel.Lemmas.Traverse
import FiddleModel.Properties.C09

namespace Fiddle

/-- Round trip: executing the straight-line program generated for a configuration rebuilds
    that configuration exactly — every object, at its own index, with its kind, callable,
    Buildable type, arguments, tags and references (so sharing is identical too). -/
theorem C12_straight_line_roundtrip_partial (h : Heap) (wf : h.WellFormed)
    (hd : ∀ o ∈ h, o.defaults = []) (root : GVal) (hr : ∀ j, root = .ref j → j < h.length) :
    (straightLine h root).run = some (root, h) := by
  obtain ⟨env, hrun, hl⟩ := runAssigns_straight h [] [] (by intro j hj; simp at hj)
    (by intro i o ho c hc j hj; exact wf i o (by simpa using ho) c hc j hj) hd
  unfold CProg.run straightLine
  simp only [List.length_nil, List.nil_append] at hrun hl
  simp only [hrun]
  cases root with
  | atom t => simp [CExpr.eval]
  | ref j => simp [CExpr.eval, hl j (hr j rfl)]

/-- The same for the program a generator really emits — only the objects reachable from the root,
    children before parents (the memoized post-order table `rebuild` computes): for EVERY acyclic
    configuration that program exists, executes, and what it builds is the input path for path:
    same leaves, callables, tags at every path, and two paths lead to one object in the result
    exactly when they do in the input (`imageOf` is one-to-one, `C08_rebuild_same_sharing`). -/
theorem C12_reachable_program_roundtrip (h : Heap) (wf : h.WellFormed) (hd : ∀ o ∈ h, o.defaults = [])
    (root : GVal) (hr : ∀ i, root = .ref i → i < h.length) :
    ∃ r st, rebuild h root = .ok (r, st) ∧ (straightLine st.out r).run = some (r, st.out) ∧
      ∀ p, followPath st.out r p = (followPath h root p).map (imageOf st.memo) :=
  C09_roundtrip_total h wf hd root hr

/-- Executing any expression never touches an existing object. -/
theorem C12_execution_only_allocates (e : CExpr) (env : CEnv) (h : Heap) (v : GVal) (h' : Heap)
    (he : e.eval env h = some (v, h')) (i : Nat) (hi : i < h.length) : h'[i]? = h[i]? := by
  obtain ⟨t, rfl⟩ := CExpr.eval_prefix e env h v h' he
  simp [List.getElem?_append_left hi]

/-- A constructor expression yields a new object, different from every existing one ... -/
theorem C12_constructor_is_fresh (kind : NKind) (ty bk : String) (sig : Sig)
    (ch : List (PElem × CExpr)) (tags : List (Key × List Nat)) (env : CEnv) (h : Heap) (v : GVal)
    (h' : Heap) (he : (CExpr.node kind ty bk sig ch tags).eval env h = some (v, h')) :
    ∃ n, v = .ref n ∧ h.length ≤ n ∧ h'.length = n + 1 ∧
      ∃ o, h'[n]? = some o ∧ o.kind = kind ∧ o.ty = ty ∧ o.bk = bk ∧ o.tags = tags ∧
        o.children.map (·.1) = ch.map (·.1) := by
  simp only [CExpr.eval] at he
  split at he
  · cases he
  · rename_i vals h1 hc
    simp only [Option.some.injEq, Prod.mk.injEq] at he
    obtain ⟨rfl, rfl⟩ := he
    have hp := (CExpr.evalCh_prefix ch env h vals h1 hc).length_le
    refine ⟨h1.length, rfl, hp, by simp,
      { kind := kind, ty := ty, bk := bk, sig := sig, children := vals, tags := tags },
      by simp, rfl, rfl, rfl, rfl, ?_⟩
    -- the keys of the evaluated children are the keys written in the program
    clear hp
    induction ch generalizing h vals h1 with
    | nil => simp [CExpr.evalCh] at hc; simp [hc.1]
    | cons c cs ih =>
      obtain ⟨pe, e⟩ := c
      simp only [CExpr.evalCh] at hc
      split at hc
      · cases hc
      · rename_i v1 h2 _
        split at hc
        · cases hc
        · rename_i vs h3 hc'
          simp only [Option.some.injEq, Prod.mk.injEq] at hc
          obtain ⟨rfl, rfl⟩ := hc
          simp [ih _ _ _ hc']

/-- ... while a variable yields the very object it was bound to, every time, and allocates
    nothing: two occurrences of a variable are two references to one object. -/
theorem C12_variable_shares (x : Nat) (env : CEnv) (h : Heap) (v : GVal) (hx : env.lookup x = some v) :
    (CExpr.var x).eval env h = some (v, h) := by
  simp [CExpr.eval, hx]

/-! ## Non-vacuity -/

private def g : Heap :=
  [ { kind := .cfg, ty := "f", bk := "Config", children := [(.attr "x", .atom "1")], tags := [(.name "x", [2])] },
    { kind := .list, children := [(.index 0, .ref 0), (.index 1, .ref 0)] },
    { kind := .cfg, ty := "g", bk := "Partial", children := [(.attr "a", .ref 1), (.attr "b", .ref 0)] } ]

example : g.WellFormed := Heap.wellFormed_of_B g (by decide)
example : ((straightLine g (.ref 2)).run).map (fun r => (r.1, r.2.length)) = some (.ref 2, 3) := by decide

end Fiddle
