import FiddleModel.Generated.Tables
namespace Fiddle
theorem C12_placeholder : True := trivial
end Fiddle
