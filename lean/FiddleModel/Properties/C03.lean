import FiddleModel.Model.ArgStore
namespace Fiddle
theorem C03_placeholder : True := trivial
end Fiddle
