/-
C03 — attribute, index and slice edits behave like edits to a bound-argument list.

Model: `Model/ArgStore.lean` (mirror of config.py / signatures.py). Helper lemmas:
`Lemmas/Dict.lean`, `Lemmas/View.lean`, `Lemmas/Ops.lean`, `Lemmas/History.lean`.
-/
import FiddleModel.Lemmas.ViewDel
import FiddleModel.Lemmas.SliceBounds
import FiddleModel.Lemmas.View
import FiddleModel.Lemmas.History
import FiddleModel.Lemmas.ViewSet

namespace Fiddle
open Sig

/-! ### The positional view is a Python list computed from the store -/

/-- **`cfg[:]` is a function of what is stored.** For every signature whose positional storage
    keys are distinct, and every store: the list `__getitem__` indexes into consists of one slot
    per positional parameter — its own stored value, else its default, else `NO_VALUE` — (the
    fixed-length prefix) followed by the contiguous `*args` entries. -/
theorem C03_view_is_lookup (s : Sig) (c : Cfg) (wf : ViewWF s) :
    s.allPositional c.args = viewSlots s c.args s 0 ++
      (match s.vpStart with
       | some st => varRun c.args c.args.length st
       | none => []) :=
  allPositional_eq s c.args wf

/-- The fixed prefix has one slot per positional parameter, whatever is stored. -/
theorem viewSlots_length (s : Sig) (d d' : Dict Val) :
    ∀ ps i, (viewSlots s d ps i).length = (viewSlots s d' ps i).length := by
  intro ps
  induction ps with
  | nil => intro i; rfl
  | cons p ps ih =>
    intro i
    simp only [viewSlots]
    split <;> simp [ih]

/-- **Fixed-length prefix**: no edit history can change the number of non-variadic slots of
    the view. -/
theorem C03_prefix_fixed_length (s : Sig) (c : Cfg) (ops : List Op) :
    (viewSlots s (Cfg.run s c ops).args s 0).length = (viewSlots s c.args s 0).length :=
  viewSlots_length s _ _ s 0

/-- `cfg[i]` is Python list indexing (negative indices from the end, out of range raises) of
    the view. -/
theorem C03_getitem_is_list_index (s : Sig) (c : Cfg) (i : Int) :
    c.getItem s i = (match Py.getIdx (c.posView s) i with
      | some v => .ok v
      | none => .error .indexError) := rfl

/-- Slots depend only on the lookups of the positional keys. -/
theorem viewSlots_congr (s : Sig) (d d' : Dict Val) :
    ∀ ps i, (∀ k ∈ posKeys ps i, d.get? k = d'.get? k) → viewSlots s d ps i = viewSlots s d' ps i := by
  intro ps
  induction ps with
  | nil => intro i _; rfl
  | cons p ps ih =>
    intro i h
    simp only [viewSlots, posKeys] at h ⊢
    cases hk : posKey p i with
    | none => simp only [hk] at h ⊢; exact ih (i + 1) h
    | some k =>
      simp only [hk] at h ⊢
      rw [h k (by simp), ih (i + 1) (fun k' hk' => h k' (by simp [hk']))]

theorem varRun_congr (d d' : Dict Val) :
    ∀ fuel i, (∀ j : Nat, d.get? (.idx j) = d'.get? (.idx j)) → varRun d fuel i = varRun d' fuel i := by
  intro fuel
  induction fuel with
  | zero => intro i _; rfl
  | succ fuel ih => intro i h; simp only [varRun, h i, ih (i + 1) h]

/-- **`cfg[i] = v` is list item assignment on the fixed prefix.** If the first `i + 1`
    parameters are positional (as in every Python signature that has at least `i + 1` of them)
    and the assignment is accepted, the prefix of the view afterwards is the prefix before with
    slot `i` replaced by `v`, and no `*args` entry (no other index at all) is touched. -/
theorem C03_setitem_is_list_set (s : Sig) (c c' : Cfg) (i : Nat) (v : Val) (wf : ViewWF s)
    (hv : ∀ ts j, v ≠ .tv ts j)
    (hpre : ∀ j, j ≤ i → ∃ p, s[j]? = some p ∧ (p.kind = .po ∨ p.kind = .pk))
    (h : c.setItem s (i : Int) v = .ok c') :
    viewSlots s c'.args s 0 = (viewSlots s c.args s 0).set i v ∧
      ∀ j : Nat, j ≠ i → c'.args.get? (.idx j) = c.args.get? (.idx j) := by
  obtain ⟨p, hp, hkey⟩ := posKeys_prefix s 0 i hpre
  have hilt : i < s.length := (List.getElem?_eq_some_iff.mp hp).1
  obtain ⟨p', hp', hkind⟩ := hpre i (Nat.le_refl _)
  rw [hp] at hp'; cases hp'
  -- the key `index_to_key` computes is the storage key of the i-th positional parameter
  have hik : s.indexToKey (i : Int) c.args = .ok (if p.kind == .pk then .name p.name else .idx (i : Int)) := by
    unfold Sig.indexToKey
    have h1 : ¬ ((i : Int) < 0) := by omega
    have h2 : (i : Int) < (s.length : Int) := by omega
    have h3 : ¬ ((i : Int) < -(s.length : Int)) := by omega
    simp only [h1, if_false, h2, if_true, h3]
    have : Py.getIdx s (i : Int) = some p := by
      unfold Py.getIdx
      simp only [h1, if_false]
      simpa using hp
    rw [this]
    simp only []
    split <;> rfl
  have hsv : ∃ k, posKey p (0 + i) = some k ∧ c' = c.setValue k v := by
    unfold Cfg.setItem at h
    have h1 : ¬ ((i : Int) < 0) := by omega
    simp only [h1, if_false, hik] at h
    rcases hkind with e | e
    · have : (p.kind == Kind.pk) = false := by rw [e]; rfl
      simp only [this, Bool.false_eq_true, if_false] at h
      have key : ∀ (b : Bool), (if b = true then (Except.error Err.indexError : Except Err Cfg)
          else Except.ok (c.setValue (Key.idx (i : Int)) v)) = Except.ok c' →
          c' = c.setValue (.idx (i : Int)) v := by
        intro b hb
        cases b
        · simp at hb; exact hb.symm
        · simp at hb
      exact ⟨.idx (i : Int), by simp [posKey, e], key _ h⟩
    · have : (p.kind == Kind.pk) = true := by rw [e]; rfl
      simp only [this, if_true] at h
      cases h; exact ⟨.name p.name, by simp [posKey, e], rfl⟩
  obtain ⟨k, hk, rfl⟩ := hsv
  have hargs : (c.setValue k v).args = c.args.set k v := by
    rw [setValue_plain c k v hv, log_args]
  rw [hargs]
  refine ⟨viewSlots_set s c.args k v s 0 i wf.keysNodup (by rw [hkey, hk]), ?_⟩
  intro j hj
  apply Dict.get?_set_other
  intro e
  subst e
  simp only [Nat.zero_add] at hk
  rcases hkind with e | e
  · simp [posKey, e] at hk; omega
  · simp [posKey, e] at hk

/-- ... so for a callable without `*args` the whole list `cfg[:]` indexes into is updated like
    a Python list: `view' = view[:i] + [v] + view[i+1:]`. -/
theorem C03_setitem_is_list_set_no_varargs (s : Sig) (c c' : Cfg) (i : Nat) (v : Val) (wf : ViewWF s)
    (hv : ∀ ts j, v ≠ .tv ts j) (hvp : s.vpStart = none)
    (hpre : ∀ j, j ≤ i → ∃ p, s[j]? = some p ∧ (p.kind = .po ∨ p.kind = .pk))
    (h : c.setItem s (i : Int) v = .ok c') :
    s.allPositional c'.args = (s.allPositional c.args).set i v := by
  rw [C03_view_is_lookup s c' wf, C03_view_is_lookup s c wf, hvp]
  simp only [List.append_nil]
  exact (C03_setitem_is_list_set s c c' i v wf hv hpre h).1

/-! ### Slice assignment on the fixed prefix -/

/-- Positions `0..m` of the signature are positional parameters. -/
def PosUpTo (s : Sig) (m : Nat) : Prop :=
  ∀ j, j ≤ m → ∃ p, s[j]? = some p ∧ (p.kind = .po ∨ p.kind = .pk)

theorem setItems_is_foldl_set (s : Sig) (wf : ViewWF s) (hvp : s.vpStart = none) :
    ∀ (ivs : List (Int × Val)) (c c' : Cfg),
      (∀ iv ∈ ivs, (∀ ts j, iv.2 ≠ .tv ts j) ∧ ∃ m : Nat, iv.1 = (m : Int) ∧ PosUpTo s m) →
      Cfg.setItems s c ivs = .ok c' →
      s.allPositional c'.args =
        ivs.foldl (fun l (iv : Int × Val) => l.set iv.1.toNat iv.2) (s.allPositional c.args) := by
  intro ivs
  induction ivs with
  | nil => intro c c' _ h; simp [Cfg.setItems] at h; simp [h]
  | cons iv ivs ih =>
    intro c c' hall h
    obtain ⟨i, v⟩ := iv
    obtain ⟨hv, m, rfl, hpre⟩ := hall (i, v) (by simp)
    simp only [Cfg.setItems] at h
    split at h
    · rename_i c1 h1
      have := C03_setitem_is_list_set_no_varargs s c c1 m v wf hv hvp hpre h1
      simp only [List.foldl_cons, Int.toNat_natCast]
      rw [← this]
      exact ih c1 c' (fun iv hiv => hall iv (by simp [hiv])) h
    · cases h

/-- **`cfg[a:b:st] = vals` is list slice assignment** (callables without `*args`): an accepted
    assignment has exactly as many values as the slice selects positions, and afterwards the
    list `cfg[:]` indexes into is the list before with every selected position replaced by its
    value, in order — Python's extended-slice assignment (`Py.setSlice` for `st ≠ 1`), for
    every start, stop and step sign. -/
theorem C03_setslice_is_list_slice_assignment (s : Sig) (c c' : Cfg) (k : Cfg.SliceK) (vals : List Val)
    (wf : ViewWF s) (hvp : s.vpStart = none) (hv : ∀ v ∈ vals, ∀ ts j, v ≠ .tv ts j)
    (a b st : Int)
    (hsl : Py.sliceIndices (Cfg.resolveSlice s k) (s.allPositional c.args).length = some (a, b, st))
    (hidx : ∀ i ∈ Py.rangeList a b st, ∃ m : Nat, i = (m : Int) ∧ PosUpTo s m)
    (h : c.setSlice s k vals = .ok c') :
    (Py.rangeList a b st).length = vals.length ∧
      s.allPositional c'.args =
        ((Py.rangeList a b st).zip vals).foldl (fun l (iv : Int × Val) => l.set iv.1.toNat iv.2)
          (s.allPositional c.args) := by
  unfold Cfg.setSlice at h
  simp only [hsl, hvp] at h
  by_cases hl : (Py.rangeList a b st).length = vals.length
  · simp only [hl, ne_eq, not_true_eq_false, if_false, if_true] at h
    refine ⟨hl, setItems_is_foldl_set s wf hvp _ c c' ?_ h⟩
    intro iv hiv
    have h1 := List.of_mem_zip hiv
    exact ⟨hv iv.2 h1.2, hidx iv.1 h1.1⟩
  · simp [hl] at h

/-- The same with the hypothesis one can read off a signature: every slot of the view belongs to
    a positional parameter. That the slice only selects positions inside the list is CPython's
    `slice.indices` + `range` arithmetic (`Py.rangeList_bounds`). -/
theorem C03_setslice_is_list_slice_assignment_in_view (s : Sig) (c c' : Cfg) (k : Cfg.SliceK)
    (vals : List Val) (wf : ViewWF s) (hvp : s.vpStart = none) (hv : ∀ v ∈ vals, ∀ ts j, v ≠ .tv ts j)
    (hpos : ∀ m, m < (s.allPositional c.args).length → PosUpTo s m)
    (h : c.setSlice s k vals = .ok c') :
    ∃ a b st, Py.sliceIndices (Cfg.resolveSlice s k) (s.allPositional c.args).length = some (a, b, st) ∧
      (Py.rangeList a b st).length = vals.length ∧
      s.allPositional c'.args =
        ((Py.rangeList a b st).zip vals).foldl (fun l (iv : Int × Val) => l.set iv.1.toNat iv.2)
          (s.allPositional c.args) := by
  cases hsl : Py.sliceIndices (Cfg.resolveSlice s k) (s.allPositional c.args).length with
  | none => unfold Cfg.setSlice at h; simp [hsl] at h
  | some t =>
    obtain ⟨a, b, st⟩ := t
    refine ⟨a, b, st, rfl, C03_setslice_is_list_slice_assignment s c c' k vals wf hvp hv a b st hsl ?_ h⟩
    intro i hi
    obtain ⟨h0, hlt⟩ := Py.rangeList_bounds _ _ a b st hsl i hi
    refine ⟨i.toNat, (Int.toNat_of_nonneg h0).symm, hpos i.toNat ?_⟩
    omega

/-- Non-vacuity: `cfg[2::-1] = [7, 8, 9]` on `f(p=…, q=…, r=…)` is accepted and reverses into place. -/
private def sg3 : Sig := [{ name := "p", kind := .pk, dflt := true }, { name := "q", kind := .pk, dflt := true },
  { name := "r", kind := .pk, dflt := true }]
example : ((({} : Cfg).setSlice sg3 { start := some 2, step := some (-1) } [.v 7, .v 8, .v 9]).toOption.map
    (fun c' => sg3.allPositional c'.args)) = some [.v 9, .v 8, .v 7] := by decide

/-- **Deleting a positional parameter's value** (`del cfg.x`, `del cfg[i]` inside the fixed
    prefix both end in `delValue`): the slot of the view shows what an unconfigured Buildable
    shows there — the parameter's default, else NO_VALUE — and every other slot is unchanged;
    the prefix keeps its length. -/
theorem C03_delete_shows_default (s : Sig) (c c' : Cfg) (k : Key) (j : Nat) (wf : ViewWF s)
    (hn : c.args.NodupKeys) (hk : (posKeys s 0)[j]? = some k) (h : c.delValue k = .ok c') :
    viewSlots s c'.args s 0 =
      (viewSlots s c.args s 0).set j ((viewSlots s ([] : Dict Val) s 0).getD j .nov) := by
  unfold Cfg.delValue at h
  split at h
  · simp only [Except.ok.injEq] at h
    subst h
    rw [log_args]
    exact viewSlots_del s c.args k hn s 0 j wf.keysNodup hk
  · cases h

/-- **`cfg[a:b:st]` is list slicing**: a read by slice (any step sign) returns exactly one element
    per selected position — none is dropped, because every selected position lies inside the
    view (`Py.rangeList_bounds`) — namely the view's element at that position, in slice order. -/
theorem C03_getslice_is_list_slice (s : Sig) (c : Cfg) (k : Cfg.SliceK) (vs : List Val)
    (h : c.getSlice s k = .ok vs) :
    ∃ a b st, Py.sliceIndices (Cfg.resolveSlice s k) (c.posView s).length = some (a, b, st) ∧
      vs.length = (Py.rangeList a b st).length ∧
      ∀ n (hn : n < (Py.rangeList a b st).length), vs[n]? = (c.posView s)[((Py.rangeList a b st)[n]).toNat]? := by
  unfold Cfg.getSlice Py.getSlice at h
  cases hsl : Py.sliceIndices (Cfg.resolveSlice s k) (c.posView s).length with
  | none => simp [hsl] at h
  | some t =>
    obtain ⟨a, b, st⟩ := t
    simp only [hsl, Except.ok.injEq] at h
    subst h
    have hb := Py.rangeList_bounds _ _ a b st hsl
    have hall : ∀ i ∈ Py.rangeList a b st, ∃ x, (c.posView s)[i.toNat]? = some x := by
      intro i hi
      obtain ⟨h0, hlt⟩ := hb i hi
      have : i.toNat < (c.posView s).length := by omega
      exact ⟨(c.posView s)[i.toNat], by simp [this]⟩
    refine ⟨a, b, st, rfl, ?_, ?_⟩
    · generalize Py.rangeList a b st = l at hall
      induction l with
      | nil => simp
      | cons i l ih =>
        obtain ⟨x, hx⟩ := hall i (by simp)
        simp [List.filterMap_cons, hx, ih (fun j hj => hall j (by simp [hj]))]
    · generalize Py.rangeList a b st = l at hall
      intro n hn
      induction l generalizing n with
      | nil => simp at hn
      | cons i l ih =>
        obtain ⟨x, hx⟩ := hall i (by simp)
        cases n with
        | zero => simp [List.filterMap_cons, hx]
        | succ n' =>
          simp only [List.filterMap_cons, hx, List.getElem?_cons_succ, List.getElem_cons_succ]
          exact ih (fun j hj => hall j (by simp [hj])) n' (by simpa using hn)

/-- The storage key `index_to_key` computes for position `i` of the fixed prefix is the key of the
    `i`-th positional slot of the view. -/
theorem indexToKey_prefix (s : Sig) (d : Dict Val) (i : Nat)
    (hpre : ∀ j, j ≤ i → ∃ p, s[j]? = some p ∧ (p.kind = .po ∨ p.kind = .pk)) :
    ∃ k, s.indexToKey (i : Int) d = .ok k ∧ (posKeys s 0)[i]? = some k := by
  obtain ⟨p, hp, hkey⟩ := posKeys_prefix s 0 i hpre
  have hilt : i < s.length := (List.getElem?_eq_some_iff.mp hp).1
  obtain ⟨p', hp', hkind⟩ := hpre i (Nat.le_refl _)
  rw [hp] at hp'; cases hp'
  have hik : s.indexToKey (i : Int) d = .ok (if p.kind == .pk then .name p.name else .idx (i : Int)) := by
    unfold Sig.indexToKey
    have h1 : ¬ ((i : Int) < 0) := by omega
    have h2 : (i : Int) < (s.length : Int) := by omega
    have h3 : ¬ ((i : Int) < -(s.length : Int)) := by omega
    simp only [h1, if_false, h2, if_true, h3]
    have : Py.getIdx s (i : Int) = some p := by
      unfold Py.getIdx
      simp only [h1, if_false]
      simpa using hp
    rw [this]
    simp only []
    split <;> rfl
  refine ⟨_, hik, ?_⟩
  rw [hkey]
  rcases hkind with e | e
  · have : (p.kind == Kind.pk) = false := by rw [e]; rfl
    simp [posKey, e, this]
  · have : (p.kind == Kind.pk) = true := by rw [e]; rfl
    simp [posKey, e, this]

/-- **`del cfg[i]` inside the fixed prefix** (callables without `*args`): a set parameter becomes
    unset — its slot shows the default, else NO_VALUE — every other slot is unchanged and the
    list keeps its length (unlike `del` on a Python list: the prefix has a fixed length). -/
theorem C03_delitem_shows_default (s : Sig) (c c' : Cfg) (i : Nat) (wf : ViewWF s)
    (hvp : s.vpStart = none) (hn : c.args.NodupKeys)
    (hpre : ∀ j, j ≤ i → ∃ p, s[j]? = some p ∧ (p.kind = .po ∨ p.kind = .pk))
    (h : c.delItem s (i : Int) = .ok c') :
    viewSlots s c'.args s 0 = viewSlots s c.args s 0 ∨
    viewSlots s c'.args s 0 =
      (viewSlots s c.args s 0).set i ((viewSlots s ([] : Dict Val) s 0).getD i .nov) := by
  obtain ⟨k, hik, hk⟩ := indexToKey_prefix s c.args i hpre
  unfold Cfg.delItem at h
  have h1 : ¬ ((i : Int) < 0) := by omega
  simp only [h1, if_false] at h
  split at h
  · cases h
  · rename_i hb
    have hlt : (i : Int) < ((s.allPositional c.args).length : Int) := by
      simp only [Bool.or_eq_true, decide_eq_true_eq, not_or, Int.not_le] at hb
      omega
    unfold Cfg.delIndices at h
    simp only [hvp, Option.getD_none] at h
    have hs : Cfg.sortDesc [(i : Int)] = [(i : Int)] := by
      simp [Cfg.sortDesc, Cfg.sortDesc.ins]
    rw [hs] at h
    simp only [Cfg.delPass, hlt, if_true, hik] at h
    by_cases hc : c.args.contains k = true
    · simp only [hc, if_true] at h
      cases hd : c.delValue k with
      | error e => simp [hd] at h
      | ok c1 =>
        simp only [hd, Nat.sub_self, List.range'_zero, Cfg.delCompact, Except.ok.injEq] at h
        subst h
        exact .inr (C03_delete_shows_default s c c1 k i wf hn hk hd)
    · simp only [hc, Bool.false_eq_true, if_false, Nat.sub_self, List.range'_zero, Cfg.delCompact,
        Except.ok.injEq] at h
      subst h
      exact .inl rfl

/-! ### Slice deletion (callables without `*args`) -/

theorem Dict.del_eq_self_of_get_none {α : Type} (d : Dict α) (k : Key) (h : d.get? k = none) :
    d.del k = d := by
  induction d with
  | nil => rfl
  | cons kv r ih =>
    obtain ⟨k0, v0⟩ := kv
    by_cases e : k0 = k
    · simp [Dict.get?, e] at h
    · simp only [Dict.get?, e, if_false] at h
      simp [Dict.del, e, ih h]

/-- A slot whose key is not stored already shows what an unconfigured Buildable shows there. -/
theorem viewSlots_unset_is_default (s : Sig) (d : Dict Val) (k : Key) (j : Nat) (wf : ViewWF s)
    (hd : d.NodupKeys) (hk : (posKeys s 0)[j]? = some k) (hc : d.contains k = false) :
    (viewSlots s d s 0).set j ((viewSlots s ([] : Dict Val) s 0).getD j .nov) = viewSlots s d s 0 := by
  have hg : d.get? k = none := by
    unfold Dict.contains at hc
    cases h : d.get? k with
    | none => rfl
    | some v => simp [h] at hc
  have := viewSlots_del s d k hd s 0 j wf.keysNodup hk
  rw [Dict.del_eq_self_of_get_none d k hg] at this
  exact this.symm

theorem mem_sortDesc_ins (x y : Int) : ∀ l : List Int, y ∈ Cfg.sortDesc.ins x l ↔ y = x ∨ y ∈ l := by
  intro l
  induction l with
  | nil => simp [Cfg.sortDesc.ins]
  | cons z zs ih =>
    simp only [Cfg.sortDesc.ins]
    split
    · simp
    · simp only [List.mem_cons, ih]
      constructor
      · rintro (h | h | h)
        · exact .inr (.inl h)
        · exact .inl h
        · exact .inr (.inr h)
      · rintro (h | h | h)
        · exact .inr (.inl h)
        · exact .inl h
        · exact .inr (.inr h)

/-- `sorted(indices, reverse=True)` has the same elements. -/
theorem mem_sortDesc (y : Int) (xs : List Int) : y ∈ Cfg.sortDesc xs ↔ y ∈ xs := by
  induction xs with
  | nil => simp [Cfg.sortDesc]
  | cons x xs ih =>
    have : Cfg.sortDesc (x :: xs) = Cfg.sortDesc.ins x (Cfg.sortDesc xs) := rfl
    rw [this, mem_sortDesc_ins, ih]
    simp

/-- The deletion pass over indices that all lie in the fixed prefix: the placeholder list is
    untouched and the view is the old one with each visited slot reset, one `List.set` per index. -/
theorem delPass_prefix (s : Sig) (wf : ViewWF s) (vs : Nat) :
    ∀ (idxs : List Int) (c c1 : Cfg) (news news' : List Nat), c.args.NodupKeys →
      (∀ i ∈ idxs, ∃ m : Nat, i = (m : Int) ∧ m < vs ∧ PosUpTo s m) →
      Cfg.delPass s vs c news idxs = .ok (c1, news') →
      news' = news ∧ c1.args.NodupKeys ∧
      viewSlots s c1.args s 0 =
        idxs.foldl (fun l (i : Int) => l.set i.toNat ((viewSlots s ([] : Dict Val) s 0).getD i.toNat .nov))
          (viewSlots s c.args s 0) := by
  intro idxs
  induction idxs with
  | nil =>
    intro c c1 news news' hn _ h
    simp only [Cfg.delPass, Except.ok.injEq, Prod.mk.injEq] at h
    obtain ⟨rfl, rfl⟩ := h
    exact ⟨rfl, hn, rfl⟩
  | cons index r ih =>
    intro c c1 news news' hn hall h
    obtain ⟨m, rfl, hm, hpre⟩ := hall index (List.mem_cons_self ..)
    have hr : ∀ i ∈ r, ∃ m : Nat, i = (m : Int) ∧ m < vs ∧ PosUpTo s m :=
      fun i hi => hall i (List.mem_cons_of_mem _ hi)
    obtain ⟨k, hik, hk⟩ := indexToKey_prefix s c.args m hpre
    have hlt : (m : Int) < (vs : Int) := by omega
    simp only [Cfg.delPass, hlt, if_true, hik] at h
    simp only [List.foldl_cons, Int.toNat_natCast]
    by_cases hc : c.args.contains k = true
    · simp only [hc, if_true] at h
      cases hd : c.delValue k with
      | error e => simp [hd] at h
      | ok c2 =>
        simp only [hd] at h
        have hn2 : c2.args.NodupKeys := by
          unfold Cfg.delValue at hd
          simp only [hc, if_true, Except.ok.injEq] at hd
          subst hd
          rw [log_args]
          exact Dict.nodup_del _ _ hn
        obtain ⟨e1, e2, e3⟩ := ih c2 c1 news news' hn2 hr h
        refine ⟨e1, e2, ?_⟩
        rw [e3, C03_delete_shows_default s c c2 k m wf hn hk hd]
    · have hc' : c.args.contains k = false := by simpa using hc
      simp only [hc', Bool.false_eq_true, if_false] at h
      obtain ⟨e1, e2, e3⟩ := ih c c1 news news' hn hr h
      refine ⟨e1, e2, ?_⟩
      rw [e3, viewSlots_unset_is_default s c.args k m wf hn hk hc']

/-- Resetting slots one `List.set` at a time, read position by position. -/
theorem foldl_set_getElemOpt {α : Type} (g : Nat → α) :
    ∀ (idxs : List Int) (l : List α) (j : Nat),
      (idxs.foldl (fun l (i : Int) => l.set i.toNat (g i.toNat)) l)[j]? =
        if (∃ i ∈ idxs, i.toNat = j) then (l[j]?).map (fun _ => g j) else l[j]? := by
  intro idxs
  induction idxs with
  | nil => intro l j; simp
  | cons i r ih =>
    intro l j
    simp only [List.foldl_cons, ih, List.getElem?_set, List.mem_cons, exists_eq_or_imp]
    by_cases hr : ∃ a, a ∈ r ∧ a.toNat = j
    · simp only [hr, or_true, if_true]
      by_cases hi : i.toNat = j
      · subst hi
        simp only [if_true]
        by_cases hl : i.toNat < l.length
        · simp [hl]
        · simp [hl, List.getElem?_eq_none (Nat.le_of_not_lt hl)]
      · simp [hi]
    · simp only [hr, or_false, if_false]
      by_cases hi : i.toNat = j
      · subst hi
        simp only [if_true]
        by_cases hl : i.toNat < l.length
        · simp [hl]
        · simp [hl, List.getElem?_eq_none (Nat.le_of_not_lt hl)]
      · simp [hi]

/-- **`del cfg[a:b:st]` on a callable without `*args`**: an accepted slice deletion resets exactly
    the selected positions — each shows what an unconfigured Buildable shows there (the
    parameter's default, else NO_VALUE) — leaves every other position as it was, and the list
    keeps its length (the prefix is fixed; nothing shifts, unlike `del` on a Python list). Every
    step sign; the deletion order (`sorted(..., reverse=True)`) is irrelevant to the result. -/
theorem C03_delslice_resets_selected (s : Sig) (c c' : Cfg) (k : Cfg.SliceK) (wf : ViewWF s)
    (hvp : s.vpStart = none) (hn : c.args.NodupKeys)
    (hpos : ∀ m, m < (s.allPositional c.args).length → PosUpTo s m)
    (h : c.delSlice s k = .ok c') :
    ∃ a b st, Py.sliceIndices (Cfg.resolveSlice s k) (s.allPositional c.args).length = some (a, b, st) ∧
      (viewSlots s c'.args s 0).length = (viewSlots s c.args s 0).length ∧
      ∀ j : Nat, (viewSlots s c'.args s 0)[j]? =
        if (j : Int) ∈ Py.rangeList a b st
        then ((viewSlots s c.args s 0)[j]?).map (fun _ => (viewSlots s ([] : Dict Val) s 0).getD j .nov)
        else (viewSlots s c.args s 0)[j]? := by
  unfold Cfg.delSlice at h
  cases hsl : Py.sliceIndices (Cfg.resolveSlice s k) (s.allPositional c.args).length with
  | none => simp [hsl] at h
  | some t =>
    obtain ⟨a, b, st⟩ := t
    simp only [hsl] at h
    refine ⟨a, b, st, rfl, viewSlots_length s _ _ s 0, ?_⟩
    unfold Cfg.delIndices at h
    simp only [hvp, Option.getD_none] at h
    cases hp : Cfg.delPass s (s.allPositional c.args).length c
        (List.range (s.allPositional c.args).length) (Cfg.sortDesc (Py.rangeList a b st)) with
    | error e => simp [hp] at h
    | ok r =>
      obtain ⟨c1, news⟩ := r
      simp only [hp, Nat.sub_self, List.range'_zero, Cfg.delCompact, Except.ok.injEq] at h
      subst h
      have hall : ∀ i ∈ Cfg.sortDesc (Py.rangeList a b st),
          ∃ m : Nat, i = (m : Int) ∧ m < (s.allPositional c.args).length ∧ PosUpTo s m := by
        intro i hi
        rw [mem_sortDesc] at hi
        obtain ⟨h0, hlt⟩ := Py.rangeList_bounds _ _ a b st hsl i hi
        refine ⟨i.toNat, (Int.toNat_of_nonneg h0).symm, by omega, hpos i.toNat (by omega)⟩
      obtain ⟨_, _, hv⟩ := delPass_prefix s wf _ _ c c1 _ _ hn hall hp
      intro j
      rw [hv, foldl_set_getElemOpt (fun n => (viewSlots s ([] : Dict Val) s 0).getD n .nov)]
      have hiff : (∃ i ∈ Cfg.sortDesc (Py.rangeList a b st), i.toNat = j) ↔ (j : Int) ∈ Py.rangeList a b st := by
        constructor
        · rintro ⟨i, hi, rfl⟩
          rw [mem_sortDesc] at hi
          obtain ⟨h0, _⟩ := Py.rangeList_bounds _ _ a b st hsl i hi
          rwa [Int.toNat_of_nonneg h0]
        · intro hj
          exact ⟨(j : Int), (mem_sortDesc _ _).mpr hj, by simp⟩
      simp only [hiff]

/-- Non-vacuity: `del cfg[::2]` on `f(p=…, q=…, r=…)` with all three set is accepted, resets
    slots 0 and 2 to their defaults and leaves slot 1. -/
example : ((({ args := [(.name "p", .v 1), (.name "q", .v 2), (.name "r", .v 3)] } : Cfg).delSlice sg3
    { step := some 2 }).toOption.map (fun c' => sg3.allPositional c'.args)) = some [.d "p", .v 2, .d "r"] := by
  decide

/-! ### Negative and out-of-range indices -/

theorem posView_length (s : Sig) (c : Cfg) : (c.posView s).length = (s.allPositional c.args).length := by
  simp [Cfg.posView]

/-- **Negative indices count from the end of the reported list**: for `-len ≤ i < 0`, reading,
    assigning and deleting at `i` are exactly the same operation at `i + len(cfg[:])`. -/
theorem C03_negative_index_counts_from_end (s : Sig) (c : Cfg) (i : Int) (v : Val) (hi : i < 0)
    (hn : 0 ≤ i + ((s.allPositional c.args).length : Int)) :
    c.getItem s i = c.getItem s (i + ((s.allPositional c.args).length : Int)) ∧
    c.setItem s i v = c.setItem s (i + ((s.allPositional c.args).length : Int)) v ∧
    c.delItem s i = c.delItem s (i + ((s.allPositional c.args).length : Int)) := by
  have h2 : ¬ (i + ((s.allPositional c.args).length : Int) < 0) := by omega
  refine ⟨?_, ?_, ?_⟩
  · unfold Cfg.getItem Py.getIdx
    simp only [posView_length, hi, h2, if_true, if_false]
  · unfold Cfg.setItem
    simp only [hi, h2, if_true, if_false]
  · unfold Cfg.delItem
    simp only [hi, h2, if_true, if_false]

/-- **An index below `-len(cfg[:])` is rejected with `IndexError`** by reads, assignments and
    deletions alike (it never wraps around a second time), and — the result being an error — nothing
    is stored. -/
theorem C03_index_below_range_raises (s : Sig) (c : Cfg) (i : Int) (v : Val)
    (hn : i + ((s.allPositional c.args).length : Int) < 0) :
    c.getItem s i = .error .indexError ∧ c.setItem s i v = .error .indexError ∧
    c.delItem s i = .error .indexError := by
  have hi : i < 0 := by omega
  refine ⟨?_, ?_, ?_⟩
  · unfold Cfg.getItem Py.getIdx
    simp only [posView_length, hi, hn, if_true]
  · unfold Cfg.setItem
    simp only [hi, hn, if_true]
  · unfold Cfg.delItem
    simp [hi, hn]

/-- **An index at or beyond `len(cfg[:])` is rejected with `IndexError`** by reads and deletions. -/
theorem C03_index_above_range_raises (s : Sig) (c : Cfg) (i : Int)
    (hn : ((s.allPositional c.args).length : Int) ≤ i) :
    c.getItem s i = .error .indexError ∧ c.delItem s i = .error .indexError := by
  have hi : ¬ i < 0 := by omega
  refine ⟨?_, ?_⟩
  · unfold Cfg.getItem Py.getIdx
    simp only [posView_length, hi, if_false]
    have : (c.posView s)[i.toNat]? = none := by
      apply List.getElem?_eq_none
      rw [posView_length]; omega
    simp [this]
  · unfold Cfg.delItem
    simp only [hi, if_false]
    have : (decide False || decide (i ≥ ((s.allPositional c.args).length : Int))) = true := by
      simp only [Bool.or_eq_true, decide_eq_true_eq]; right; exact hn
    rw [if_pos this]

/-- Non-vacuity on `f(p=…, q=…, r=…)` (three slots): `cfg[-1]` is `cfg[2]`, `cfg[-4]` and `cfg[3]` raise,
    `cfg[-4] = v` raises. -/
example : ({} : Cfg).getItem sg3 (-1) = ({} : Cfg).getItem sg3 2 := by rfl
example : ({} : Cfg).getItem sg3 (-4) = .error .indexError ∧ ({} : Cfg).getItem sg3 3 = .error .indexError ∧
    ({} : Cfg).setItem sg3 (-4) (.v 1) = .error .indexError := ⟨by rfl, by rfl, by rfl⟩

/-! ### Attribute edits behave like a dict restricted to the signature -/

/-- A name is accepted by `setattr` exactly when it names a keyword-capable parameter, or the
    callable takes `**kwargs` and the name is not a positional-only / `*args` parameter. -/
theorem C03_setattr_rejected_iff (s : Sig) (c : Cfg) (n : String) (v : Val) :
    (∃ c', c.setAttr s n v = .ok c') ↔ s.validName n = true := by
  unfold Cfg.setAttr
  constructor
  · intro ⟨c', h⟩; split at h
    · assumption
    · cases h
  · intro h; simp [h]

/-- Unknown names are rejected when there is no `**kwargs`; positional-only and `*args`
    parameters are rejected always. -/
theorem C03_invalid_names_rejected (s : Sig) (c : Cfg) (n : String) (v : Val) :
    (s.find? n = none ∧ s.hasVk = false) ∨
    (∃ p, s.find? n = some p ∧ (p.kind = .po ∨ p.kind = .vp)) →
    c.setAttr s n v = .error .attributeError := by
  intro h
  unfold Cfg.setAttr Sig.validName
  rcases h with ⟨hn, hv⟩ | ⟨p, hp, hk⟩
  · simp [hn, hv]
  · rcases hk with hk | hk <;> simp [hp, hk]

/-- **Set then get**: a plain value assigned by name is what the store holds for that name,
    and no other key changes. -/
theorem C03_setattr_effect (s : Sig) (c c' : Cfg) (n : String) (m : Nat)
    (h : c.setAttr s n (.v m) = .ok c') :
    c'.args.get? (.name n) = some (.v m) ∧ ∀ k, k ≠ .name n → c'.args.get? k = c.args.get? k := by
  unfold Cfg.setAttr at h
  split at h
  · cases h
    simp only [Cfg.setValue, log_args]
    exact ⟨Dict.get?_set_same _ _ _, fun k hk => Dict.get?_set_other _ _ _ _ (fun e => hk e.symm)⟩
  · cases h

/-- After a successful `setattr`, `getattr` returns the value. -/
theorem C03_setattr_getattr (s : Sig) (c c' : Cfg) (n : String) (m : Nat)
    (h : c.setAttr s n (.v m) = .ok c') : c'.getAttr s n = .ok (.v m) := by
  have := (C03_setattr_effect s c c' n m h).1
  simp [Cfg.getAttr, this]

/-- `del cfg.x`: succeeds exactly when `x` is set; afterwards it is unset and nothing else
    changed (given a well-formed dict). -/
theorem C03_delattr_effect (s : Sig) (c c' : Cfg) (n : String) (hn : c.args.NodupKeys)
    (h : c.delAttr s n = .ok c') :
    c.args.contains (.name n) = true ∧ c'.args.get? (.name n) = none ∧
    ∀ k, k ≠ .name n → c'.args.get? k = c.args.get? k := by
  unfold Cfg.delAttr Cfg.delValue at h
  split at h
  · rename_i c'' hd
    cases h
    split at hd
    · rename_i hc
      cases hd
      simp only [log_args]
      exact ⟨hc, Dict.get?_del_same _ _ hn, fun k hk => Dict.get?_del_other _ _ _ (fun e => hk e.symm)⟩
    · cases hd
  · cases h

theorem C03_delattr_unset_rejected (s : Sig) (c : Cfg) (n : String)
    (h : c.args.contains (.name n) = false) : c.delAttr s n = .error .attributeError := by
  simp [Cfg.delAttr, Cfg.delValue, h]

/-- **Frame for the view**: an edit of a key that is neither a positional storage key nor an
    int key leaves `cfg[:]` exactly as it was (keyword-only parameters and `**kwargs` entries
    live outside the positional view). -/
theorem C03_named_edit_keeps_view (s : Sig) (c c' : Cfg) (n : String) (m : Nat) (wf : ViewWF s)
    (hk : Key.name n ∉ posKeys s 0) (h : c.setAttr s n (.v m) = .ok c') :
    s.allPositional c'.args = s.allPositional c.args ∨ c'.args.length ≠ c.args.length := by
  by_cases hl : c'.args.length = c.args.length
  · left
    have he := (C03_setattr_effect s c c' n m h).2
    rw [allPositional_eq s _ wf, allPositional_eq s _ wf, hl]
    congr 1
    · exact viewSlots_congr s _ _ s 0 (fun k hkm => he k (fun e => hk (e ▸ hkm)))
    · cases s.vpStart with
      | none => rfl
      | some st => exact varRun_congr _ _ _ _ (fun j => he _ (by intro e; cases e))
  · right; exact hl

/-! ### The store stays a well-formed dict through every history -/

/-- After any history of edits (valid or rejected) the argument dict still has pairwise
    distinct keys: the positional view and the named view are always well defined. -/
theorem C03_store_wellformed (s : Sig) (c0 : Cfg) (ops : List Op) (h0 : HistInv c0) :
    (Cfg.run s c0 ops).args.NodupKeys :=
  (Cfg.run_closed HistInv_closed s ops c0 h0).nodup

/-- A rejected edit leaves the state exactly as it was (the model's operations are functions
    into `Except`, and `run` keeps the old state on error). -/
theorem C03_rejected_edit_no_effect (s : Sig) (c : Cfg) (o : Op) (e : Err)
    (h : c.applyOp s o = .error e) : Cfg.run s c [o] = c := by
  simp [Cfg.run, h]

/-! ### Non-vacuity -/

example : ViewWF [⟨"a", .po, true⟩, ⟨"p", .pk, false⟩, ⟨"args", .vp, false⟩, ⟨"k", .ko, true⟩] :=
  viewWF_of_viewWFB _ (by decide)

example : (construct [⟨"a", .po, true⟩, ⟨"p", .pk, false⟩, ⟨"args", .vp, false⟩] [.v 1, .v 2, .v 3] []).isSome = true := by
  decide

end Fiddle
