/-
C05 — a failing callable surfaces faithfully and leaves no residue.
-/
import FiddleModel.Model.Graph
import FiddleModel.Model.Errors

namespace Fiddle

/-- **Faithful surfacing**, in all branches of the decoration logic (proxy created, proxy
    creation failed, diagnostic formatting failed, not an `Exception`): the escaping exception
    is an instance of the original class and its message begins with the original message. -/
theorem C05_instance_and_prefix (e : Exc) (hz : Hazards) (ctx : String) :
    (decorate e hz ctx).cls.isSubclassOf e.cls = true ∧
    e.msg.toList <+: (decorate e hz ctx).msg.toList := by
  unfold decorate
  split
  · simp [Cls.isSubclassOf]
  · split
    · simp [Cls.isSubclassOf]
    · split
      · simp [Cls.isSubclassOf]
      · simp [Cls.isSubclassOf, String.toList_append]

/-- The Fiddle context (and hence the path) is present exactly when none of the hazards
    occurred. -/
theorem C05_decorated_iff (e : Exc) (hz : Hazards) (ctx : String) :
    (decorate e hz ctx).decorated = (hz.isException && hz.messageOk && hz.subclassable) := by
  unfold decorate
  cases hz.isException <;> cases hz.messageOk <;> cases hz.subclassable <;> simp

/-- **The guard is reset whatever happens**: after any top-level build entered with the
    guard down, the guard is down again. -/
theorem C05_guard_reset (r : BuildRun) : (inBuild false r).1 = false := by
  simp [inBuild]

/-- **Nested builds are rejected**, and rejecting one does not release the outer guard. -/
theorem C05_nested_rejected (r : BuildRun) : inBuild true r = (true, [.rejected]) := by
  simp [inBuild]

/-- Every nested attempt made during a build is rejected (however many there are and
    whether or not the callable swallows the error), then the build ends as it would have. -/
theorem C05_all_nested_rejected (r : BuildRun) :
    (inBuild false r).2 =
      List.replicate r.nested GuardObs.rejected ++ [if r.fails then .failed else .built] := by
  simp [inBuild]

/-- **Sequences**: after any sequence of builds with arbitrary failures, the guard is down
    and the next build starts normally. -/
theorem C05_sequences (rs : List BuildRun) : (runBuilds false rs).1 = false := by
  induction rs with
  | nil => rfl
  | cons r rs ih => simp [runBuilds, inBuild, ih]

/-- … and the next build after any such sequence is accepted and ends normally. -/
theorem C05_next_build_ok (rs : List BuildRun) (r : BuildRun) :
    (inBuild (runBuilds false rs).1 r).2 =
      List.replicate r.nested GuardObs.rejected ++ [if r.fails then .failed else .built] := by
  rw [C05_sequences]; exact C05_all_nested_rejected r

end Fiddle
