import FiddleModel.Generated.Tables
namespace Fiddle
theorem C10_placeholder : True := trivial
end Fiddle
