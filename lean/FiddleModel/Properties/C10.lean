/-
C10 — applying build_diff(old, new) to old yields new.

Model (`Model/Diff.lean`): one node — a callable, named arguments and tags — with the
validation the real `DiffOperation.apply` goes through (`__setattr__`, `__delattr__`,
`add_tag`, `remove_tag`, `update_callable` all check argument names against the node's
*current* callable; `sg f` = the names callable `f` accepts). `flatDiff` is `build_diff` for
such a pair, `applyPhases` is `_apply_changes`: one pass per operation type, in the order of
the tuple in the source — which is read from /repo into `Tables.applyOrder` on every run.

Proved, for every pair of valid nodes and every signature table: the application succeeds,
the callable, every argument and every tag set of the result are those of `new`; the diff of
a node with an equal node is empty; the order of the phases is what makes it succeed
(`C10_order_matters`: a different order fails on a concrete pair).
Not modelled (correspondence run and its oracle only): alignment of nested structures,
moved/shared sub-configurations and `new_shared_values`, positional arguments (a known
finding: build_diff rejects them), in-place identity of the root.
-/
import FiddleModel.Lemmas.DiffMain
import FiddleModel.Generated.Tables

namespace Fiddle
open Fiddle.Diff

/-- The phase order of `_apply_changes` in the current source is the one the theorem is about. -/
theorem C10_apply_order_obligation :
    Tables.applyOrder = ["DeleteValue", "RemoveTag", "ModifyValue", "SetValue", "AddTag"] := by
  decide

/-- `apply_diff(build_diff(old, new), old)` succeeds and yields `new`: same callable, same
    value for every argument key (set or unset), same tag set for every argument. -/
theorem C10_apply_build_diff (sg : Sigs) (old new : Flat) (ho : old.Valid sg) (hn : new.Valid sg) :
    ∃ r, applyPhases sg Tables.applyOrder (flatDiff old new) old = .ok r ∧
      r.fn = new.fn ∧ (∀ k, r.args.get? k = new.args.get? k) ∧
      (∀ n t, t ∈ r.tagsOf n ↔ t ∈ new.tagsOf n) := by
  rw [C10_apply_order_obligation]
  exact flat_roundtrip sg old new ho hn

/-- The diff between a configuration and its (equal) deep copy is empty. -/
theorem C10_diff_of_copy_is_empty (c : Flat) (hn : c.args.NodupKeys) (ht : c.tags.NodupKeys) :
    flatDiff c c = [] := flatDiff_self c hn ht

/-- An empty diff changes nothing. -/
theorem C10_empty_diff_is_identity (sg : Sigs) (order : List String) (c : Flat) :
    applyPhases sg order [] c = .ok c := by
  induction order with
  | nil => rfl
  | cons ty order ih => simp [applyPhases, applyAll, ih]

/-! ## The order matters, and the hypotheses are satisfiable -/

private def sgEx : Sigs := fun f => if f = "f" then ["a", "c"] else if f = "g" then ["b", "c"] else []
private def oldEx : Flat := { fn := "f", args := [(.name "a", .v 1), (.name "c", .v 3)], tags := [(.name "a", [7])] }
private def newEx : Flat := { fn := "g", args := [(.name "c", .v 4), (.name "b", .v 2)], tags := [(.name "b", [8])] }

example : oldEx.Valid sgEx ∧ newEx.Valid sgEx :=
  ⟨⟨by decide, by unfold Dict.NodupKeys; decide, by decide, by unfold Dict.NodupKeys; decide⟩,
   ⟨by decide, by unfold Dict.NodupKeys; decide, by decide, by unfold Dict.NodupKeys; decide⟩⟩

example : flatDiff oldEx newEx =
    [.deleteValue "a", .removeTag "a" 7, .modifyFn "g", .modifyValue "c" (.v 4), .setValue "b" (.v 2),
     .addTag "b" 8] := by decide

example : (applyPhases sgEx Tables.applyOrder (flatDiff oldEx newEx) oldEx).toOption =
    some { fn := "g", args := [(.name "c", .v 4), (.name "b", .v 2)],
           tags := [(.name "a", []), (.name "b", [8])] } := by decide

/-- Changing the callable before deleting what the new callable rejects fails ... -/
theorem C10_order_matters :
    (applyPhases sgEx ["ModifyValue", "DeleteValue", "RemoveTag", "SetValue", "AddTag"]
      (flatDiff oldEx newEx) oldEx).toOption = none ∧
    (applyPhases sgEx ["DeleteValue", "RemoveTag", "SetValue", "ModifyValue", "AddTag"]
      (flatDiff oldEx newEx) oldEx).toOption = none := by decide

end Fiddle
