/-
C09 — JSON serialization is lossless or loud, and policy-gated.
-/
import FiddleModel.Model.Serialize

namespace Fiddle

theorem char_ofNat_toNat (n : Nat) (h : n < 256) : (Char.ofNat n).toNat = n := by
  have hv : n.isValidChar := Or.inl (by omega)
  simp [Char.ofNat, hv, Char.ofNatAux, Char.toNat]

theorem latin1_byte (b : UInt8) : (Char.ofNat b.toNat).toNat = b.toNat :=
  char_ofNat_toNat _ b.toNat_lt

/-- **Bytes survive the codec**: for EVERY byte string (any length, any content, including
    escape-like sequences) encoding the decoded text gives the bytes back. -/
theorem C09_bytes_roundtrip (bs : List UInt8) : encodeLatin1 (decodeLatin1 bs) = some bs := by
  induction bs with
  | nil => rfl
  | cons b r ih =>
    have hb := latin1_byte b
    have hlt : b.toNat < 256 := b.toNat_lt
    simp only [decodeLatin1, List.map_cons, encodeLatin1] at ih ⊢
    rw [hb]
    simp only [hlt, if_true]
    rw [show List.map (fun b => Char.ofNat b.toNat) r = decodeLatin1 r from rfl] at *
    simp [ih]

/-- **Policy gate**: every symbol resolved while loading ANY document (not only outputs of
    `dump_json`) was approved by `allows_import` and its value by `allows_value`. -/
theorem C09_policy_gated (p : Policy) :
    (∀ (d : Doc) acc res, d.resolve p acc = .ok res →
      (∀ s ∈ acc, p.allowsImport s.1 s.2 = true ∧ p.allowsValue s.1 s.2 = true) →
      ∀ s ∈ res, p.allowsImport s.1 s.2 = true ∧ p.allowsValue s.1 s.2 = true) := by
  intro d
  induction d using Doc.rec (motive_2 := fun ds => ∀ acc res, Doc.resolveList p ds acc = .ok res →
      (∀ s ∈ acc, p.allowsImport s.1 s.2 = true ∧ p.allowsValue s.1 s.2 = true) →
      ∀ s ∈ res, p.allowsImport s.1 s.2 = true ∧ p.allowsValue s.1 s.2 = true) with
  | leaf t => intro acc res h hacc; simp [Doc.resolve] at h; subst h; exact hacc
  | pyref m n =>
    intro acc res h hacc
    simp only [Doc.resolve] at h
    split at h
    · split at h
      · cases h
        intro s hs
        simp only [List.mem_append, List.mem_singleton] at hs
        rcases hs with hs | hs
        · exact hacc s hs
        · subst hs; constructor <;> assumption
      · cases h
    · cases h
  | node ch ih => intro acc res h hacc; simp only [Doc.resolve] at h; exact ih acc res h hacc
  | nil =>
    rename_i acc res h hacc s hs
    simp [Doc.resolveList] at h; subst h; exact hacc s hs
  | cons d r ihd ihr =>
    rename_i acc res h hacc s hs
    simp only [Doc.resolveList] at h
    split at h
    · cases h
    · rename_i acc' h1
      exact ihr acc' res h (ihd acc acc' h1 hacc) s hs

/-- A document that refers to a denied symbol is rejected when the reference is reached. -/
theorem C09_denied_raises (p : Policy) (m n : String) (acc : List (String × String))
    (h : p.allowsImport m n = false) : (Doc.pyref m n).resolve p acc = .error (.policy m n) := by
  simp [Doc.resolve, h]

example : encodeLatin1 (decodeLatin1 [92, 117, 48, 48, 52, 49]) = some [92, 117, 48, 48, 52, 49] :=
  C09_bytes_roundtrip _      -- b'\\u0041'

end Fiddle
