/-
C09 — JSON serialization is lossless or loud, and policy-gated.
-/
import FiddleModel.Model.Serialize
import FiddleModel.Lemmas.RebuildL
import FiddleModel.Lemmas.CodegenL
import FiddleModel.Lemmas.RebuildTotal
import FiddleModel.Lemmas.RebuildStable

namespace Fiddle

theorem char_ofNat_toNat (n : Nat) (h : n < 256) : (Char.ofNat n).toNat = n := by
  have hv : n.isValidChar := Or.inl (by omega)
  simp [Char.ofNat, hv, Char.ofNatAux, Char.toNat]

theorem latin1_byte (b : UInt8) : (Char.ofNat b.toNat).toNat = b.toNat :=
  char_ofNat_toNat _ b.toNat_lt

/-- **Bytes survive the codec**: for EVERY byte string (any length, any content, including
    escape-like sequences) encoding the decoded text gives the bytes back. -/
theorem C09_bytes_roundtrip (bs : List UInt8) : encodeLatin1 (decodeLatin1 bs) = some bs := by
  induction bs with
  | nil => rfl
  | cons b r ih =>
    have hb := latin1_byte b
    have hlt : b.toNat < 256 := b.toNat_lt
    simp only [decodeLatin1, List.map_cons, encodeLatin1] at ih ⊢
    rw [hb]
    simp only [hlt, if_true]
    rw [show List.map (fun b => Char.ofNat b.toNat) r = decodeLatin1 r from rfl] at *
    simp [ih]

/-- **Policy gate**: every symbol resolved while loading ANY document (not only outputs of
    `dump_json`) was approved by `allows_import` and its value by `allows_value`. -/
theorem C09_policy_gated (p : Policy) :
    (∀ (d : Doc) acc res, d.resolve p acc = .ok res →
      (∀ s ∈ acc, p.allowsImport s.1 s.2 = true ∧ p.allowsValue s.1 s.2 = true) →
      ∀ s ∈ res, p.allowsImport s.1 s.2 = true ∧ p.allowsValue s.1 s.2 = true) := by
  intro d
  induction d using Doc.rec (motive_2 := fun ds => ∀ acc res, Doc.resolveList p ds acc = .ok res →
      (∀ s ∈ acc, p.allowsImport s.1 s.2 = true ∧ p.allowsValue s.1 s.2 = true) →
      ∀ s ∈ res, p.allowsImport s.1 s.2 = true ∧ p.allowsValue s.1 s.2 = true) with
  | leaf t => intro acc res h hacc; simp [Doc.resolve] at h; subst h; exact hacc
  | pyref m n =>
    intro acc res h hacc
    simp only [Doc.resolve] at h
    split at h
    · split at h
      · cases h
        intro s hs
        simp only [List.mem_append, List.mem_singleton] at hs
        rcases hs with hs | hs
        · exact hacc s hs
        · subst hs; constructor <;> assumption
      · cases h
    · cases h
  | node ch ih => intro acc res h hacc; simp only [Doc.resolve] at h; exact ih acc res h hacc
  | nil =>
    rename_i acc res h hacc s hs
    simp [Doc.resolveList] at h; subst h; exact hacc s hs
  | cons d r ihd ihr =>
    rename_i acc res h hacc s hs
    simp only [Doc.resolveList] at h
    split at h
    · cases h
    · rename_i acc' h1
      exact ihr acc' res h (ihd acc acc' h1 hacc) s hs

/-- A document that refers to a denied symbol is rejected when the reference is reached. -/
theorem C09_denied_raises (p : Policy) (m n : String) (acc : List (String × String))
    (h : p.allowsImport m n = false) : (Doc.pyref m n).resolve p acc = .error (.policy m n) := by
  simp [Doc.resolve, h]

example : encodeLatin1 (decodeLatin1 [92, 117, 48, 48, 52, 49]) = some [92, 117, 48, 48, 52, 49] :=
  C09_bytes_roundtrip _      -- b'\\u0041'

/-! ## The structure of the document

`dump_json` walks the configuration with a memoized post-order traversal and emits one entry of
the `objects` table per memoizable object, children replaced by `{"type": "ref", "key": …}` to
earlier entries: the table is `rebuild`'s result heap. `load_json` creates the objects entry by
entry, resolving references to the objects already created: `straightLine … .run`. -/

/-- Loading what was dumped recreates the dumped table exactly ... -/
theorem C09_load_of_dump (h : Heap) (wf : h.WellFormed) (hd : ∀ o ∈ h, o.defaults = [])
    (root r : GVal) (st : RbSt) (hb : rebuild h root = .ok (r, st)) :
    (straightLine st.out r).run = some (r, st.out) := by
  obtain ⟨s, m⟩ := rebuildVal_step h wf _ root {} r st hb (RbSt.inv_init h)
  have hwf := rebuilt_wellFormed h st s.inv
  have hdef : ∀ o' ∈ st.out, o'.defaults = [] := by
    intro o' ho'
    obtain ⟨j, hj⟩ := List.getElem?_of_mem ho'
    obtain ⟨i, o, _, ho, rfl⟩ := rebuilt_out_object h st s.inv j o' hj
    exact hd o (List.mem_of_getElem? ho)
  have hr : ∀ j, r = .ref j → j < st.out.length := by
    intro j hj
    rw [m.1] at hj
    cases root with
    | atom t => simp [imageOf] at hj
    | ref k =>
      have hk := m.2 k rfl
      cases hg : rbGet st.memo k with
      | none => simp [hg] at hk
      | some j' =>
        simp only [imageOf, hg, Option.getD_some, GVal.ref.injEq] at hj
        subst hj; exact s.inv.fresh k _ hg
  obtain ⟨env, hrun, hl⟩ := runAssigns_straight st.out [] [] (by intro j hj; simp at hj)
    (by intro i o ho c hc j hj; exact hwf i o (by simpa using ho) c hc j hj) hdef
  unfold CProg.run straightLine
  simp only [List.length_nil, List.nil_append] at hrun hl
  simp only [hrun]
  cases r with
  | atom t => simp [CExpr.eval]
  | ref j => simp [CExpr.eval, hl j (hr j rfl)]

/-- ... and that table is, path for path, the input configuration: types, leaves, callables,
    tags and sharing are those of the input (lossless). -/
theorem C09_dump_is_faithful (h : Heap) (wf : h.WellFormed) (root r : GVal) (st : RbSt)
    (hb : rebuild h root = .ok (r, st)) (p : Path) :
    followPath st.out r p = (followPath h root p).map (imageOf st.memo) := by
  obtain ⟨s, m⟩ := rebuildVal_step h wf _ root {} r st hb (RbSt.inv_init h)
  rw [m.1]; exact followPath_rebuilt h st s.inv p root m.2

/-- The round trip exists for EVERY acyclic configuration (no "if dump_json returned" premise):
    the table is produced, loading it recreates it exactly, and it is the input path for path. -/
theorem C09_roundtrip_total (h : Heap) (wf : h.WellFormed) (hd : ∀ o ∈ h, o.defaults = [])
    (root : GVal) (hr : ∀ i, root = .ref i → i < h.length) :
    ∃ r st, rebuild h root = .ok (r, st) ∧ (straightLine st.out r).run = some (r, st.out) ∧
      ∀ p, followPath st.out r p = (followPath h root p).map (imageOf st.memo) := by
  obtain ⟨r, st, hb⟩ := rebuild_total h wf root hr
  exact ⟨r, st, hb, C09_load_of_dump h wf hd root r st hb, C09_dump_is_faithful h wf root r st hb⟩

/-- "Serializing the reconstruction again gives the same document": `load_json` recreated the
    table exactly (`C09_load_of_dump`), and dumping that table again — a second memoized
    post-order traversal, now over the table itself — writes the very same table with the same
    root, entry for entry. -/
theorem C09_redump_is_same_document (h : Heap) (wf : h.WellFormed) (root r : GVal) (st : RbSt)
    (hb : rebuild h root = .ok (r, st)) :
    ∃ st2, rebuild st.out r = .ok (r, st2) ∧ st2.out = st.out :=
  rebuild_stable h wf root r st hb

/-! ## Non-vacuity of the round-trip theorems: a configuration with a shared node and a list -/

private def gdoc : Heap :=
  [ { kind := .cfg, ty := "f", bk := "Config", children := [(.attr "x", .atom "1")], tags := [(.name "x", [2])] },
    { kind := .list, children := [(.index 0, .ref 0), (.index 1, .ref 0)] },
    { kind := .cfg, ty := "g", bk := "Partial", children := [(.attr "a", .ref 1), (.attr "b", .ref 0)] } ]

example : ∃ r st st2, rebuild gdoc (.ref 2) = .ok (r, st) ∧
    (straightLine st.out r).run = some (r, st.out) ∧
    rebuild st.out r = .ok (r, st2) ∧ st2.out = st.out := by
  have wf : gdoc.WellFormed := Heap.wellFormed_of_B gdoc (by decide)
  obtain ⟨r, st, hb, hload, _⟩ := C09_roundtrip_total gdoc wf (by decide) (.ref 2)
    (by intro i hi; cases hi; decide)
  obtain ⟨st2, h2, ho⟩ := C09_redump_is_same_document gdoc wf (.ref 2) r st hb
  exact ⟨r, st, st2, hb, hload, h2, ho⟩

end Fiddle
