/-
Py layer: CPython slice arithmetic and list slice operations.

Mirrors `PySlice_AdjustIndices` / `slice.indices(len)`, `range(start, stop, step)` and
`list.__getitem__/__setitem__/__delitem__` with slice keys.  Validated against CPython by the
correspondence check (`harness/props/pylayer.py`).
-/
namespace Py

/-- A Python slice `slice(start, stop, step)`; `none` = `None`. -/
structure Slice where
  start : Option Int
  stop  : Option Int
  step  : Option Int
deriving Repr, DecidableEq

/-- `slice(start, stop, step).indices(len)`; `none` when `step = 0` (ValueError). -/
def sliceIndices (s : Slice) (len : Nat) : Option (Int × Int × Int) :=
  let st := s.step.getD 1
  if st = 0 then none else
  let n : Int := len
  let lower : Int := if st < 0 then -1 else 0
  let upper : Int := if st < 0 then n - 1 else n
  let adj (x : Int) : Int :=
    if x < 0 then (if x + n < lower then lower else x + n)
    else (if x > upper then upper else x)
  let a := match s.start with
    | none => if st < 0 then upper else lower
    | some x => adj x
  let b := match s.stop with
    | none => if st < 0 then lower else upper
    | some x => adj x
  some (a, b, st)

/-- `len(range(a, b, st))` for `st ≠ 0`. -/
def rangeLen (a b st : Int) : Nat :=
  if st > 0 then (if a < b then ((b - a + st - 1) / st).toNat else 0)
  else if st < 0 then (if b < a then ((a - b + (-st) - 1) / (-st)).toNat else 0)
  else 0

/-- `list(range(a, b, st))`. -/
def rangeList (a b st : Int) : List Int :=
  (List.range (rangeLen a b st)).map (fun (i : Nat) => a + (i : Int) * st)

/-- Python `xs[i]` for a (possibly negative) integer index. -/
def getIdx {α} (xs : List α) (i : Int) : Option α :=
  let n : Int := xs.length
  let j := if i < 0 then i + n else i
  if j < 0 then none else xs[j.toNat]?

/-- Python `xs[slice]`. -/
def getSlice {α} (xs : List α) (s : Slice) : Option (List α) :=
  match sliceIndices s xs.length with
  | none => none
  | some (a, b, st) => some ((rangeList a b st).filterMap (fun i => xs[i.toNat]?))

/-- Positional update at a natural index (no-op when out of range). -/
def setNat {α} (xs : List α) (i : Nat) (v : α) : List α := xs.set i v

/-- Python `xs[slice] = vs`; `none` = ValueError (zero step, or extended slice with a
    different length). -/
def setSlice {α} (xs : List α) (s : Slice) (vs : List α) : Option (List α) :=
  match sliceIndices s xs.length with
  | none => none
  | some (a, b, st) =>
    if st = 1 then
      let b' := if b < a then a else b
      some (xs.take a.toNat ++ vs ++ xs.drop b'.toNat)
    else
      let idxs := rangeList a b st
      if idxs.length ≠ vs.length then none
      else some ((idxs.zip vs).foldl (fun acc (p : Int × α) => acc.set p.1.toNat p.2) xs)

/-- Remove the elements at the given natural indices (any order, duplicates ignored). -/
def eraseIdxs {α} (xs : List α) (idxs : List Nat) : List α :=
  (xs.zipIdx.filter (fun p => !idxs.contains p.2)).map (·.1)

/-- Python `del xs[slice]`; `none` = ValueError (zero step). -/
def delSlice {α} (xs : List α) (s : Slice) : Option (List α) :=
  match sliceIndices s xs.length with
  | none => none
  | some (a, b, st) => some (eraseIdxs xs ((rangeList a b st).map Int.toNat))

end Py
