import Driver.Main
