#!/usr/bin/env python3
"""Print the prompt for a sub-agent that looks for inputs on which the UNTOUCHED library already
violates property <id> (property text only, own scratch worktree)."""
import json, sys
pid = sys.argv[1]
wt = sys.argv[2] if len(sys.argv) > 2 else f'/tmp/audit_{pid}'
for line in open('/verif/properties.jsonl'):
  p = json.loads(line)
  if p['id'] == pid:
    break
else:
  raise SystemExit('no such property')
print(f"""You are auditing a Python library against one of its stated guarantees.

The library is google/fiddle (a Python configuration library for ML). You have your OWN scratch git worktree of it at {wt} (detached HEAD). Work ONLY inside {wt}. Never touch /repo or /verif, and do not read anything under /verif. Do NOT modify the library's source: the question is about the code AS IT IS.

Run Python as:   cd {wt} && PYTHONPATH={wt} /venv/bin/python your_script.py
(so that `import fiddle` resolves to YOUR worktree; verify with `print(fiddle.__file__)`.) There is no network.

THE PROPERTY (id {p['id']}): {p['title']}

Statement: {p['statement']}

Quantified over: {p['quantifier']['text']}

Relevant source files: {', '.join(p['anchors']['files'])}

YOUR TASK: find concrete inputs / operation sequences on which the UNTOUCHED library violates the property as stated (some clause of it). Read the relevant source carefully, think about unusual but legitimate inputs inside the quantified domain (odd signatures, unusual container or leaf types, edit sequences, shared objects, equal-but-distinct values, falsy values, subclasses, name clashes, empty things, several operations in a row, ...), and TEST your hypotheses by running code. Only report what you have reproduced. Look for DIFFERENT root causes, not variations of one; aim for up to THREE distinct findings, most convincing first. A finding must be a violation of the property as written - not a missing feature, not behaviour the statement allows (for example an explicit, documented error is allowed where the statement says "or raises").

For each finding k deliver, in {wt}/_out/k/ :
  - demo.py : a small standalone program that prints what it observes and what the property requires, and exits 1 when the violation shows (which it must, on this untouched tree).
  - notes.md : which clause is violated, the root cause in the source (file, function, line), and - if you see one - a minimal fix a maintainer would accept.
If after a serious search you find nothing, say so and describe what you tried. Report at the end: one paragraph per finding.""")
