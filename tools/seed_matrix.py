#!/usr/bin/env python3
"""Applies every seeded change to /repo in turn, runs the property's quick check, undoes it, and
records which stage of the check caught it (oracle with a failing input / correspondence /
proof obligation). Writes seeded/RESULTS.json. Run from a clean /repo."""
import glob, json, os, re, subprocess, sys
ROOT = os.path.dirname(os.path.dirname(os.path.abspath(__file__)))
out = {}
only = sys.argv[1:]
for d in sorted(glob.glob(os.path.join(ROOT, 'seeded', 'C*_*'))):
  name = os.path.basename(d)
  prop = name.split('_')[0]
  if only and prop not in only and name not in only:
    continue
  if subprocess.run(['git', '-C', '/repo', 'status', '--porcelain'], capture_output=True, text=True).stdout.strip():
    sys.exit('/repo is not clean')
  r = subprocess.run(['git', '-C', '/repo', 'apply', os.path.join(d, 'patch.diff')])
  if r.returncode:
    out[name] = {'applies': False}
    continue
  try:
    p = subprocess.run([os.path.join(ROOT, 'check'), prop, '--tier', 'quick'], capture_output=True, text=True, cwd=ROOT)
    lines = [l for l in p.stdout.splitlines() if l.startswith(('VIOLATION', 'OK', 'INFRA'))]
    kinds = []
    for l in lines:
      m = re.search(r'replay=(\S+)', l)
      if m:
        try:
          kinds.append(json.load(open(os.path.join(ROOT, m.group(1)))).get('kind'))
        except Exception:
          kinds.append('?')
    try:
      ev = json.load(open(os.path.join(ROOT, 'evidence', prop + '.json')))
      cov = ev.get('coverage', {})
      extra = {'oracle_failures': cov.get('oracle_failures'), 'correspondence_disagreements': (cov.get('model_correspondence') or {}).get('cases_where_model_and_code_disagree', 0),
               'obligations': cov.get('obligations'), 'discharged': cov.get('discharged')}
    except Exception:
      extra = {}
    out[name] = {**extra, 'rc': p.returncode, 'kinds': sorted(set(kinds)), 'n_violation_lines': len([l for l in lines if l.startswith('VIOLATION')]),
                 'no_failing_input_found': any('no-failing-input-found' in l for l in lines)}
  finally:
    subprocess.run(['git', '-C', '/repo', 'checkout', '--', '.'])
    subprocess.run(['git', '-C', ROOT, 'checkout', '-q', '--', f'evidence/{prop}.json'])
  print(name, out[name], flush=True)
path = os.path.join(ROOT, 'seeded', 'RESULTS.json')
old = {}
if only and os.path.exists(path):
  old = json.load(open(path))
old.update(out)
json.dump(old, open(path, 'w'), indent=1, sort_keys=True)
