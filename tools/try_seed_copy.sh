#!/bin/bash
# tools/try_seed_copy.sh <seed dir name> <Cxx> [tier] : like try_seed.sh, but against a scratch
# worktree of /repo's HEAD under /tmp (so /repo itself is left alone, e.g. while a long run uses it).
# The check then reads fiddle and regenerates its tables from that copy (VERIF_REPO).
set -u
cd "$(dirname "$0")/.."
c=/tmp/repo_trial_$$
git -C /repo worktree add --detach "$c" HEAD -q || exit 3
trap 'git -C /repo worktree remove --force "$c" 2>/dev/null; git checkout -q -- "evidence/$2.json" 2>/dev/null' EXIT
git -C "$c" apply "$PWD/seeded/$1/patch.diff" || { echo "PATCH DOES NOT APPLY"; exit 3; }
export VERIF_REPO="$c" PYTHONPATH="$PWD:$c" PYTHONHASHSEED=0 FIDDLE_VERIF=1
/venv/bin/python -W ignore -m harness.run "$2" --tier "${3:-quick}" 2>&1 | grep -v "WARNING conda" | tail -4
rc=${PIPESTATUS[0]}
echo "seed=$1 prop=$2 rc=$rc"
