#!/usr/bin/env python3
"""Regenerates MANIFEST.json from the table below (keeps it valid at all times)."""
import json, os
ROOT = os.path.dirname(os.path.dirname(os.path.abspath(__file__)))

TB = ('Trusted: Lean 4.33 kernel (axioms propext, Classical.choice, Quot.sound only; no sorry/native_decide/'
      'bv_decide, audited each run with #print axioms; thorough also runs leanchecker); the hand-written Lean '
      'model is tied to /repo by differential correspondence through the compiled driver on generated inputs '
      '(generators bound what the tie has seen) and by harness/tables.py regenerating Generated/Tables.lean '
      'from the current source; the Python oracle transcribing the property; CPython behaviour modelled in the '
      'Py layer. ')

CHECKS = {
    'C01': dict(
        text='Theorems (all signatures, all stores): the positional list handed to the callable is slot by slot the stored value else the default followed by exactly the *args entries (C01_positional_aligned), no value is ever bound to another parameter (C01_never_misbinds), an unset required slot before a set one raises (C01_required_gap_raises); keyword part: every keyword passed is a configured argument under its own name with its own value, every keyword-only parameter and **kwargs entry is passed exactly once, and **kwargs reach the callable in the configured (insertion) order (C01_keywords_are_configured, C01_keyword_only_and_kwargs_passed, C01_keyword_order_kept, C01_kwargs_in_configured_order). Correspondence: every signature shape with <= 6 named parameters x stored subsets + random edit histories; build binding received by recording callables vs model buildCall and vs the independent direct binding.',
        note=TB + 'Partial: the full equation buildCall = direct is validated by correspondence, not proved. Hypothesis ViewWF (decidable) checked per generated signature.',
        technique='Lean 4 proof over a hand-written executable model, tied to /repo on every run by differential correspondence (compiled Lean driver vs real code on generated inputs) and regenerated source tables; independent Python oracle searches for failing inputs',
        ref='§4 C01'),
    'C02': dict(
        text="Theorems from the traversal invariant BuildSt.Inv (induction over the memoized post-order build of ANY heap): every reachable Buildable occurs exactly once in the invocation log, after everything it depends on; a second reference gets the memoized object without invocation; distinct instances get distinct results inside this build's own result heap; the built graph mirrors the config graph (Mirror); and totality: on every acyclic configuration whose calls bind, build returns (no spurious cycle error, the fuel suffices). Correspondence: random DAGs, invocation log + identity-aware canonical result; oracle = independent reference build.",
        note=TB + "Partial: 'separate builds share no objects' and pinning of memo keys against id() reuse are exercised by the correspondence run only (identity is abstract in the model).",
        technique='Lean 4 proof over a hand-written executable model, tied to /repo on every run by differential correspondence (compiled Lean driver vs real code on generated inputs) and regenerated source tables; independent Python oracle searches for failing inputs',
        ref='§4 C02'),
    'C03': dict(
        text='20 theorems: cfg[:] is a function of store lookups with a fixed-length prefix, cfg[i] is list indexing of it, attribute laws (rejected iff invalid name, set/get, delete), named edits keep the view, the store stays well-formed, rejected edits have no effect; cfg[i] = v replaces exactly slot i; for callables without *args an accepted cfg[a:b:st] = vals is list slice assignment position by position, every step sign (with the bounds of slice.indices + range proved). Correspondence after every op of exhaustive small-alphabet and random histories (item, slice, attribute, tag, update_callable, materialize), plus an independent reference model as oracle.',
        note=TB + "Partial: the slice assign/delete compaction algorithms are validated against Py.Slice and the reference model by correspondence, not proved equal to list semantics. Exception classes are not compared (the property fixes only 'raises').",
        technique='Lean 4 proof over a hand-written executable model, tied to /repo on every run by differential correspondence (compiled Lean driver vs real code on generated inputs) and regenerated source tables; independent Python oracle searches for failing inputs',
        ref='§4 C03'),
    'C04': dict(
        text="Theorems by mutual structural induction over every Partial/ArgFactory/container nesting and every call sequence: arguments without a factory are passed through uncopied and allocate nothing; each ArgFactory evaluation yields a new object allocated in this call's own window; containers holding a factory are rebuilt, others kept; objects created for different calls are pairwise distinct; call-time keywords override configured ones. Correspondence on random nestings x call sequences; oracle = hand-written functools.partial reference.",
        note=TB + "Partial: agreement of the positional/keyword split with Python call semantics rests on C01's model + correspondence.",
        technique='Lean 4 proof over a hand-written executable model, tied to /repo on every run by differential correspondence (compiled Lean driver vs real code on generated inputs) and regenerated source tables; independent Python oracle searches for failing inputs',
        ref='§4 C04'),
    'C05': dict(
        text='Theorems: the surfaced exception is an instance of the original class with the original args as prefix, decoration happens iff formatting succeeds, the build guard is reset after failure, every nested build is rejected, arbitrary sequences of failing and succeeding builds leave no residue. Correspondence with every invocation index as crash point x exception shapes, formatting failures, nested-build scripts.',
        note=TB + "Partial: Python's class machinery for the proxy exception is abstracted as Errors.decorate.",
        technique='Lean 4 proof over a hand-written executable model, tied to /repo on every run by differential correspondence (compiled Lean driver vs real code on generated inputs) and regenerated source tables; independent Python oracle searches for failing inputs',
        ref='§4 C05'),
    'C06': dict(
        text="Theorems: == is an equivalence relation on well-formed heaps (reflexive, symmetric, transitive - values and sharing); the sharing walk (a DFS with two mutable maps) succeeds exactly when a one-to-one closed correspondence between the objects of the two configurations exists (soundness + completeness), hence symmetry although the two directions visit children in different orders, transitivity by composing correspondences restricted to value-equal pairs, and independence of dict / argument insertion order; different callable / node kind / Buildable type / argument set / missing argument / sharing on either side each force False. 'Never raises' = totality of the model function, tied by correspondence. Correspondence: generated pairs and triples in both directions; oracle checks symmetry, transitivity, history/dict-order/default insensitivity, congruence with build.",
        note=TB + 'Partial: congruence with build (equal configurations build structurally identical graphs) is decided by the oracle only.',
        technique='Lean 4 proof over a hand-written executable model, tied to /repo on every run by differential correspondence (compiled Lean driver vs real code on generated inputs) and regenerated source tables; independent Python oracle searches for failing inputs',
        ref='§4 C06'),
    'C07': dict(
        text="Theorems over the heap copy model (copy of object i = object i+n): the deep copy has the same kind, callable, type, tags and argument keys node by node, the same answer to every path query and the same sharing; it refers only to its own objects; the original keeps its objects; whatever is done to later objects never changes any path query from an original object; shallow copies share argument values and are new objects. Correspondence: the real copy (deepcopy, pickle, deepcopy_with, copy, copy_with, cast) encoded on top of the original's encoding vs the model heap; original re-encoded after editing the copy; single-Buildable edit histories on the copy vs the ArgStore model.",
        note=TB + 'Partial: identity of the real tag sets / argument dicts / history lists is checked by the oracle only.',
        technique='Lean 4 proof over a hand-written executable model, tied to /repo on every run by differential correspondence (compiled Lean driver vs real code on generated inputs) and regenerated source tables; independent Python oracle searches for failing inputs',
        ref='§4 C07'),
    'C08': dict(
        text='Identity rebuild: returns on every acyclic structure, is faithful path for path, keeps sharing, and is idempotent (rebuilding the result reproduces it object for object). Theorems for every heap, root and mode: every reported (value, path) satisfies follow_path; the un-memoized traversal reports exactly the valid paths, none twice; the memoized traversal reports every reachable mutable object exactly once; the all-paths query returns exactly the reaching paths without duplicates. Hypotheses WellFormed / PathsDistinct are decidable and enforced by the driver on every request. Correspondence of the (value, path) streams of iterate (3 modes), collect_paths_by_id, get_all_paths on random structures.',
        note=TB + 'Also proved and tied: the identity rebuild (map_children) yields the same types, path-for-path equal values and the same sharing (Model/Rebuild). Partial: legacy traversals and the cycle error of iterate are decided by the oracle only.',
        technique='Lean 4 proof over a hand-written executable model, tied to /repo on every run by differential correspondence (compiled Lean driver vs real code on generated inputs) and regenerated source tables; independent Python oracle searches for failing inputs',
        ref='§4 C08'),
    'C09': dict(
        text='Theorems: the bytes codec round-trips EVERY byte string; every symbol resolved while loading any document was approved by the policy; a denied reference raises; the objects table of a document is the memoized post-order rebuild of the configuration: it is path for path the input, loading recreates it exactly, the round trip exists for every acyclic configuration, and dumping the reconstruction writes the very same table (second dump = same document). Correspondence of codec and policy gate with the real traverser / import_symbol; oracle: full round trip (types, leaves, callables, tags, sharing), second dump stable, strict JSON, no invocation, tampered documents.',
        note=TB + 'Structure: the objects table of a document is the memoized post-order rebuild of the configuration (C09_dump_is_faithful) and loading recreates it exactly (C09_load_of_dump); the real document text is read by an independent reader and compared with the table the model computes. Partial: sets, custom node types and the metadata encoding are outside the reader; json.dumps/loads trusted. One open finding (NaN/Infinity tokens).',
        technique='Lean 4 proof over a hand-written executable model, tied to /repo on every run by differential correspondence (compiled Lean driver vs real code on generated inputs) and regenerated source tables; independent Python oracle searches for failing inputs',
        ref='§4 C09'),
    'C10': dict(
        text="Theorems over single-node diffs with the validation the real DiffOperation.apply goes through: for every pair of valid nodes and every signature table, apply in the phase order READ FROM THE SOURCE (Generated/Tables.applyOrder) succeeds and yields new's callable, arguments and tag sets (C10_apply_build_diff); another order fails on a concrete pair (C10_order_matters); the diff of equal nodes is empty. Correspondence (flat stage): set of real changes = model diff; the model applies the REAL change list and gets the real result; nested pairs by the round-trip oracle.",
        note=TB + 'Partial: alignment of nested structures, moved/shared sub-configurations and new_shared_values are decided by the oracle on generated pairs only. Two open findings (positional arguments, aligned tuples).',
        technique='Lean 4 proof over a hand-written executable model, tied to /repo on every run by differential correspondence (compiled Lean driver vs real code on generated inputs) and regenerated source tables; independent Python oracle searches for failing inputs',
        ref='§4 C10'),
    'C11': dict(
        text='Model: the statement language of a function body (assignments, variables, literals, displays, configurable calls) with one new node per evaluated call. Theorems: each call creates exactly one node and touches nothing else; a variable used twice is one shared node; building the resulting DAG mirrors it object for object (C02 Mirror, exactly-once, distinct results). With a second semantics of the same text, the DIRECT CALL (a call expression invokes its callable on the Python binding of the evaluated arguments), the property itself for every program of the language: direct call and as_buildable run in lock-step (same reference; call object k = configuration object k with its call made), and conversely; fdl.build of that configuration returns whenever the direct call does, and every object it makes is the object of the direct call at that program point up to the one-to-one renaming of the memo of the build. Correspondence: the SOURCE TEXT of generated functions is read into the model language and executed; the DAG must equal the one the real as_buildable returns; oracle compares real builds with real direct calls and counts invocations.',
        note=TB + 'Partial: the AST rewrite itself, control flow, */** splats, exempt and calls of other auto_config functions are outside the modelled subset (oracle only; evidence reports how many programs were inside).',
        technique='Lean 4 proof over a hand-written executable model, tied to /repo on every run by differential correspondence (compiled Lean driver vs real code on generated inputs) and regenerated source tables; independent Python oracle searches for failing inputs',
        ref='§4 C11'),
    'C12': dict(
        text='Model: statement language of emitted fixtures with execution semantics over heaps. Theorems: the every-object-a-variable generator followed by execution rebuilds the configuration exactly (same objects, indices, arguments, tags, sharing); execution only allocates; a constructor yields a new object; a variable yields the object it was bound to. Correspondence: the module text emitted by BOTH real generators under all option settings is parsed into the language, executed by the model and compared with the input; oracle compiles and runs the real module.',
        note=TB + 'Partial: inlining of single-use variables and sub-fixture extraction are not proved; leaf value expressions are oracle-only. Five open findings.',
        technique='Lean 4 proof over a hand-written executable model, tied to /repo on every run by differential correspondence (compiled Lean driver vs real code on generated inputs) and regenerated source tables; independent Python oracle searches for failing inputs',
        ref='§4 C12'),
    'C13': dict(
        text="Theorems: for EVERY change list in ANY order (no argument both modified and set), whenever the five-phase apply_diff succeeds the emitted fiddler succeeds with exactly the same configuration (C13_fiddler_equals_apply_diff, proved by commuting independent operations); statement by statement it does what the change does; for build_diff's diffs the result is new. Correspondence: the emitted Python SOURCE is parsed back into statements, which must equal the model's emission of the real change list IN ORDER, and executing them in the model must give the real fiddler's result; all naming modes, with and without old.",
        note=TB + 'Partial: nested targets and new_shared_values are outside the single-node model (oracle only). One open finding.',
        technique='Lean 4 proof over a hand-written executable model, tied to /repo on every run by differential correspondence (compiled Lean driver vs real code on generated inputs) and regenerated source tables; independent Python oracle searches for failing inputs',
        ref='§4 C13'),
    'C14': dict(
        text='Theorems: after set_tagged every selected argument of every reachable Buildable holds the value, no other argument, no tag/callable/signature anywhere and no unreachable object changed; list_tags is exactly the union of reachable tag sets; add_tag/remove_tag/clear_tags touch exactly their tag. Correspondence: tag edit histories vs ArgStore model; on DAGs set_tagged, tag-selection replace and list_tags vs the heap model (Buildables still reachable afterwards).',
        note=TB + 'Tags survive deep/shallow copies, diff application and dump_json/load_json (theorems through the C07 / C10 / C08+C09 models). Partial: TaggedValue build is decided by the oracle.',
        technique='Lean 4 proof over a hand-written executable model, tied to /repo on every run by differential correspondence (compiled Lean driver vs real code on generated inputs) and regenerated source tables; independent Python oracle searches for failing inputs',
        ref='§4 C14'),
    'C15': dict(
        text="Theorems for every node predicate: select yields exactly the reachable matching Buildables, each once; .set leaves unselected nodes untouched and assigns exactly the given attributes on selected ones; .replace keeps every node's identity, kind, callable, tags and keys, substitutes every reference to a matching node and nothing else; tag iteration yields value else default else NO_VALUE. Correspondence: matching rule vs NodeSelection._matches (subclass matching, Buildable type), shapes of all reachable Buildables after set/replace, tag values.",
        note=TB + 'Order of iteration is not part of the property and not modelled; deepcopy=True replacement compared modulo the identity of the inserted copies.',
        technique='Lean 4 proof over a hand-written executable model, tied to /repo on every run by differential correspondence (compiled Lean driver vs real code on generated inputs) and regenerated source tables; independent Python oracle searches for failing inputs',
        ref='§4 C15'),
    'C16': dict(
        text='17 theorems by induction over arbitrary edit histories (closure principles Cfg.Closed / Cfg.ClosedT), over the full alphabet of C03 edits, add_tag / remove_tag / clear_tags / set_tags, materialize_defaults, assign, copy_with and update_callable: last entry = current value and current tag set, strictly increasing unique sequence numbers, suspended edits are silent, one entry per write, history never read by build, location provider returns the user frame, table obligations on the regenerated exclusion list and store write sites; the constructor (incl. Annotated tags) establishes the invariant. Correspondence on generated histories incl. tag edits, annotated signatures and real threads; the location model runs on the real stack captured at the provider for edits made from generated frames.',
        note=TB + 'Partial: C16_edit_modules_excluded_partial carries one open finding (tagging.py not excluded).',
        technique='Lean 4 proof over a hand-written executable model, tied to /repo on every run by differential correspondence (compiled Lean driver vs real code on generated inputs) and regenerated source tables; independent Python oracle searches for failing inputs',
        ref='§4 C16'),
    'C17': dict(
        text='The property is the absence of writes. Theorems: with the two heap effects readOnly / allocOnly every object and every path query of the input is unchanged, also after the caller edits the returned copy, for any sequence of calls; the heap transformers of the model (deep copy, shallow copy / cast, execution of generated code) are proved allocOnly. Which effect each of the 53 entry points has is checked, not proved: the correspondence encodes the input before and after every call (six configuration flavours) and compares with applyEffect; returned copies are edited.',
        note=TB + 'Partial by nature: membership of each API in the two effects is established on generated inputs only.',
        technique='Lean 4 proof over a hand-written executable model, tied to /repo on every run by differential correspondence (compiled Lean driver vs real code on generated inputs) and regenerated source tables; independent Python oracle searches for failing inputs',
        ref='§4 C17'),
    'C18': dict(
        text='13 theorems. Queue: draining applies exactly the directives in order, each once; parsing accumulates; the first directive must be a config. Path grammar (Model/Paths.lean = printing._path_str, the regex scanner of parse_path with literal_eval of keys, the leading-dot rule, the = split of set_value): every in-scope path prints; the printed text parses back to the very same steps; printing is injective; path=value splits where it was joined. Correspondence: directive scripts vs a real FiddleFlag (also with a second flag pending); generated paths, their printed, mutated and malformed texts vs the real printer and both real parsers.',
        note=TB + 'Partial: ASCII word/digit classes and printable-ASCII string keys in the model (other text answers unsupported and is compared by the oracle only); leaf enumeration, parse_value (ast.literal_eval) and config_str round trips are oracle-only.',
        technique='Lean 4 proof over a hand-written executable model, tied to /repo on every run by differential correspondence (compiled Lean driver vs real code on generated inputs) and regenerated source tables; independent Python oracle searches for failing inputs',
        ref='§4 C18'),
    'C19': dict(
        text="Model: per-thread build guard and tracking switch, one shared atomic sequence counter, schedules = arbitrary interleavings. Theorems for every schedule: each thread observes exactly what it would observe alone (sequence numbers up to order) and ends in the same local state; guard and suspension act per thread; sequence numbers unique across threads and increasing per thread; table obligation that both pieces of state ARE threading.local in the current source. Correspondence: real threads under a line-level sys.settrace scheduler vs the model's outputs for the same programs.",
        note=TB + 'Partial: pre-emption inside an operation (shared caches, non-atomic counter) cannot be exhibited by the model; the scheduler-driven run explores it but is not a proof. Atomicity of next(itertools.count) under the GIL is assumed.',
        technique='Lean 4 proof over a hand-written executable model, tied to /repo on every run by differential correspondence (compiled Lean driver vs real code on generated inputs) and regenerated source tables; independent Python oracle searches for failing inputs',
        ref='§4 C19'),
    'C20': dict(
        text='Theorems for materialize_defaults on one Buildable (every signature and store): configured arguments and tags untouched; only own defaults of value-less parameters are added; every parameter receives the same value as before; every named default is set afterwards; a second run changes nothing at all (C20_idempotent, every signature). Correspondence: flat stage vs the ArgStore model; the other transformations by before/after builds of the real code (metamorphic oracle), ==, serializability, input unchanged.',
        note=TB + 'Partial: all transformations other than materialize_defaults are oracle-only. One open finding (trim-mutable-default).',
        technique='Lean 4 proof over a hand-written executable model, tied to /repo on every run by differential correspondence (compiled Lean driver vs real code on generated inputs) and regenerated source tables; independent Python oracle searches for failing inputs',
        ref='§4 C20'),
}

NOT_YET = {}
for i in range(1, 21):
  pid = f'C{i:02d}'
  if pid not in CHECKS:
    NOT_YET[pid] = 'model and check not completed yet (work in progress; see DESIGN.md §7) - not claimed'

m = {
    'version': 1,
    'setup_cmd': 'cd lean && lake build',
    'hooks': {
        'guard': 'FIDDLE_VERIF',
        'enable': 'export FIDDLE_VERIF=1 (set by ./check; no source hooks exist, the guard is reserved)',
        'baseline_off_cmd': 'cd /repo && env -u FIDDLE_VERIF /venv/bin/python -m pytest -ra -q -p no:cacheprovider --timeout=900 --continue-on-collection-errors',
        'source_commits': [],
        'add_only': True,
    },
    'engines': [
        {'name': 'FiddleModel', 'path': 'lean/', 'serves_properties': sorted(CHECKS),
         'kind_free_text': 'Lean 4 model + theorems (lake library) and compiled JSON-lines driver'},
        {'name': 'harness', 'path': 'harness/', 'serves_properties': sorted(CHECKS),
         'kind_free_text': 'Python correspondence harness, generators, property oracles, tables translator'},
    ],
    'checks': [],
    'notes': 'See DESIGN.md. known_findings.json lists genuine defects (open -> KNOWN-FINDING lines, fixed -> regression corpus).',
    'not_applicable': [{'property_id': k, 'reason': v} for k, v in sorted(NOT_YET.items())],
}
for pid, c in sorted(CHECKS.items()):
  m['checks'].append({
      'property_id': pid,
      'quick_cmd': f'./check {pid} --tier quick',
      'thorough_cmd': f'./check {pid} --tier thorough',
      'evidence_file': f'evidence/{pid}.json',
      'replay_cmd_template': f'./check {pid} --replay {{path}}',
      'engine': 'FiddleModel',
      'level_claimed': {'category': c.get('category', 'proof'), 'text': c['text'], 'design_ref': c['ref']},
      'level_note': c['note'],
      'technique': c['technique'],
  })
json.dump(m, open(os.path.join(ROOT, 'MANIFEST.json'), 'w'), indent=1)
print('checks:', len(m['checks']), 'not_applicable:', len(m['not_applicable']))
