#!/usr/bin/env python3
"""Regenerates MANIFEST.json from the table below (keeps it valid at all times)."""
import json, os
ROOT = os.path.dirname(os.path.dirname(os.path.abspath(__file__)))

TB = ('Trusted: Lean 4.33 kernel (axioms propext, Classical.choice, Quot.sound only; no sorry/native_decide/'
      'bv_decide, audited each run with #print axioms; thorough also runs leanchecker); the hand-written Lean '
      'model is tied to /repo by differential correspondence through the compiled driver on generated inputs '
      '(generators bound what the tie has seen) and by harness/tables.py regenerating Generated/Tables.lean '
      'from the current source; the Python oracle transcribing the property; CPython behaviour modelled in the '
      'Py layer. ')

CHECKS = {
    'C01': dict(
        text='Lean model of the canonical argument store, ordered_arguments, transform_to_args_kwargs and of '
             "Python's call binding; theorems in Properties/C01.lean quantify over all signatures and stores. "
             'Every run re-checks the proofs, diffs the model against the real build path on every small '
             'signature shape x subset of set parameters plus random histories, and evaluates the property '
             'directly (binding received by recording callables vs. binding implied by cfg[:]/ordered_arguments).',
        note=TB + 'Nested Buildables are not part of this model (C02/C08).',
        technique='Lean 4 proof over a hand-written model + differential correspondence + property oracle',
        ref='§4 C01'),
    'C03': dict(
        text='Lean model mirroring __getitem__/__setitem__/__delitem__/__getattr__/__setattr__/__delattr__/'
             'ordered_arguments/__dir__ function by function, theorems in Properties/C03.lean; correspondence '
             'after every op of every generated history (small-scope exhaustive alphabet + random) and an '
             'independent reference model (Appendix B) as property oracle on the real code.',
        note=TB + 'Exception classes are not compared (the property fixes only "raises").',
        technique='Lean 4 proof over a hand-written model + differential correspondence + reference-model oracle',
        ref='§4 C03'),
    'C16': dict(
        text='Lean model of the history log (global counter, per-thread tracking switch, every store write '
             'going through the two hooks that log) with theorems by induction over arbitrary edit histories: '
             'last entry = current value, strictly increasing unique sequence numbers, suspended edits are '
             'silent, constructor establishes the invariant, history never read by build, location provider '
             'returns the user frame when inner frames are excluded, table obligation on the regenerated '
             'exclusion list. Correspondence on generated histories incl. tag edits and 4 real threads.',
        note=TB + 'Location attribution is proved for the provider model and tied to the source through the '
             'regenerated tables (modules calling History.add_* vs. _exclude_locations); one open finding '
             '(tagging.py not excluded) is listed in known_findings.json.',
        technique='Lean 4 proof (invariants by induction over edit histories) + differential correspondence + oracle',
        ref='§4 C16'),
    'C02': dict(
        text='Lean heap model (topologically ordered object graph, identity = index) of fdl.build as a memoized '
             'post-order traversal with on-stack cycle table and invocation log, composed with the ArgStore '
             'binding model for every Config node; correspondence on random DAGs (invocation order by callable, '
             'identity-aware canonical form of the built graph) and an independent reference build as oracle '
             '(once per instance, dependencies first, same/distinct results, separate builds disjoint).',
        note=TB + 'Theorems over the build model are still being added (see DESIGN.md status table); the '
             'per-run guarantee rests on correspondence + oracle.',
        technique='Lean 4 model + differential correspondence + reference-build oracle',
        ref='§4 C02'),
    'C04': dict(
        text='Lean model of the argument structure of a built Partial (build-time leaves and containers with '
             'identity, built ArgFactories), of call-time evaluation with an allocation counter, and of '
             'functools.partial keyword override; correspondence on random Partial/ArgFactory/Config nestings '
             'x call sequences, and a hand-written functools.partial reference as oracle comparing the joint '
             'canonical form (values + identities across calls).',
        note=TB + 'Sharing of one ArgFactory instance at several positions is not generated.',
        technique='Lean 4 model + differential correspondence + functools.partial reference oracle',
        ref='§4 C04'),
    'C05': dict(
        text='Lean model of build with a failing node (error carries the log of completed invocations and the '
             'path), of the nested-build guard as a state machine and of exception decoration over an abstract '
             'class hierarchy, with theorems for instance/prefix in every branch, guard reset, nested rejection '
             'and arbitrary sequences of builds; correspondence with every invocation index as crash point x '
             'exception shapes, formatting failures, nested-build scripts.',
        note=TB + "Python's class machinery (proxy subclass creation) is abstracted as Errors.decorate.",
        technique='Lean 4 proof (decision logic + state machine) + differential correspondence + oracle',
        ref='§4 C05'),
    'C08': dict(
        text='Lean heap model of daglish traversals (follow_path, iterate in three modes, collect_paths_by_id, '
             'State.get_all_paths); correspondence of the (value, path) streams on random structures; oracle: '
             'soundness of every reported pair, completeness / exact-once against an independent walk, exactness '
             'of all-paths queries, identity rebuild (new and legacy API), caller-supplied registries, cycles.',
        note=TB + 'In the default memoized mode atoms are memoized by CPython identity; only memoizable objects '
             'are compared there. Theorems over the traversal model are still being added.',
        technique='Lean 4 model + differential correspondence + independent-walk oracle',
        ref='§4 C08'),
}

NOT_YET = {}
for i in range(1, 21):
  pid = f'C{i:02d}'
  if pid not in CHECKS:
    NOT_YET[pid] = 'model and check not completed yet (work in progress; see DESIGN.md §7) - not claimed'

m = {
    'version': 1,
    'setup_cmd': 'cd lean && lake build',
    'hooks': {
        'guard': 'FIDDLE_VERIF',
        'enable': 'export FIDDLE_VERIF=1 (set by ./check; no source hooks exist, the guard is reserved)',
        'baseline_off_cmd': 'cd /repo && env -u FIDDLE_VERIF /venv/bin/python -m pytest -ra -q -p no:cacheprovider --timeout=900 --continue-on-collection-errors',
        'source_commits': [],
        'add_only': True,
    },
    'engines': [
        {'name': 'FiddleModel', 'path': 'lean/', 'serves_properties': sorted(CHECKS),
         'kind_free_text': 'Lean 4 model + theorems (lake library) and compiled JSON-lines driver'},
        {'name': 'harness', 'path': 'harness/', 'serves_properties': sorted(CHECKS),
         'kind_free_text': 'Python correspondence harness, generators, property oracles, tables translator'},
    ],
    'checks': [],
    'notes': 'See DESIGN.md. known_findings.json lists genuine defects (open -> KNOWN-FINDING lines, fixed -> regression corpus).',
    'not_applicable': [{'property_id': k, 'reason': v} for k, v in sorted(NOT_YET.items())],
}
for pid, c in sorted(CHECKS.items()):
  m['checks'].append({
      'property_id': pid,
      'quick_cmd': f'./check {pid} --tier quick',
      'thorough_cmd': f'./check {pid} --tier thorough',
      'evidence_file': f'evidence/{pid}.json',
      'replay_cmd_template': f'./check {pid} --replay {{path}}',
      'engine': 'FiddleModel',
      'level_claimed': {'category': c.get('category', 'proof'), 'text': c['text'], 'design_ref': c['ref']},
      'level_note': c['note'],
      'technique': c['technique'],
  })
json.dump(m, open(os.path.join(ROOT, 'MANIFEST.json'), 'w'), indent=1)
print('checks:', len(m['checks']), 'not_applicable:', len(m['not_applicable']))
