#!/usr/bin/env python3
"""Regenerates MANIFEST.json from the table below (keeps it valid at all times)."""
import json, os
ROOT = os.path.dirname(os.path.dirname(os.path.abspath(__file__)))

TB = ('Trusted: Lean 4.33 kernel (axioms propext, Classical.choice, Quot.sound only; no sorry/native_decide/'
      'bv_decide, audited each run with #print axioms; thorough also runs leanchecker); the hand-written Lean '
      'model is tied to /repo by differential correspondence through the compiled driver on generated inputs '
      '(generators bound what the tie has seen) and by harness/tables.py regenerating Generated/Tables.lean '
      'from the current source; the Python oracle transcribing the property; CPython behaviour modelled in the '
      'Py layer. ')

CHECKS = {
    'C01': dict(
        text='Lean model of the canonical argument store, ordered_arguments, transform_to_args_kwargs and of '
             "Python's call binding; theorems in Properties/C01.lean quantify over all signatures and stores. "
             'Every run re-checks the proofs, diffs the model against the real build path on every small '
             'signature shape x subset of set parameters plus random histories, and evaluates the property '
             'directly (binding received by recording callables vs. binding implied by cfg[:]/ordered_arguments).',
        note=TB + 'Nested Buildables are not part of this model (C02/C08).',
        technique='Lean 4 proof over a hand-written model + differential correspondence + property oracle',
        ref='§4 C01'),
    'C03': dict(
        text='Lean model mirroring __getitem__/__setitem__/__delitem__/__getattr__/__setattr__/__delattr__/'
             'ordered_arguments/__dir__ function by function, theorems in Properties/C03.lean; correspondence '
             'after every op of every generated history (small-scope exhaustive alphabet + random) and an '
             'independent reference model (Appendix B) as property oracle on the real code.',
        note=TB + 'Exception classes are not compared (the property fixes only "raises").',
        technique='Lean 4 proof over a hand-written model + differential correspondence + reference-model oracle',
        ref='§4 C03'),
    'C16': dict(
        text='Lean model of the history log (global counter, per-thread tracking switch, every store write '
             'going through the two hooks that log) with theorems by induction over arbitrary edit histories: '
             'last entry = current value, strictly increasing unique sequence numbers, suspended edits are '
             'silent, constructor establishes the invariant, history never read by build, location provider '
             'returns the user frame when inner frames are excluded, table obligation on the regenerated '
             'exclusion list. Correspondence on generated histories incl. tag edits and 4 real threads.',
        note=TB + 'Location attribution is proved for the provider model and tied to the source through the '
             'regenerated tables (modules calling History.add_* vs. _exclude_locations); one open finding '
             '(tagging.py not excluded) is listed in known_findings.json.',
        technique='Lean 4 proof (invariants by induction over edit histories) + differential correspondence + oracle',
        ref='§4 C16'),
    'C02': dict(
        text='Lean heap model (topologically ordered object graph, identity = index) of fdl.build as a memoized '
             'post-order traversal with on-stack cycle table and invocation log, composed with the ArgStore '
             'binding model for every Config node; correspondence on random DAGs (invocation order by callable, '
             'identity-aware canonical form of the built graph) and an independent reference build as oracle '
             '(once per instance, dependencies first, same/distinct results, separate builds disjoint).',
        note=TB + 'Theorems over the build model are still being added (see DESIGN.md status table); the '
             'per-run guarantee rests on correspondence + oracle.',
        technique='Lean 4 model + differential correspondence + reference-build oracle',
        ref='§4 C02'),
    'C04': dict(
        text='Lean model of the argument structure of a built Partial (build-time leaves and containers with '
             'identity, built ArgFactories), of call-time evaluation with an allocation counter, and of '
             'functools.partial keyword override; correspondence on random Partial/ArgFactory/Config nestings '
             'x call sequences, and a hand-written functools.partial reference as oracle comparing the joint '
             'canonical form (values + identities across calls).',
        note=TB + 'Sharing of one ArgFactory instance at several positions is not generated.',
        technique='Lean 4 model + differential correspondence + functools.partial reference oracle',
        ref='§4 C04'),
    'C05': dict(
        text='Lean model of build with a failing node (error carries the log of completed invocations and the '
             'path), of the nested-build guard as a state machine and of exception decoration over an abstract '
             'class hierarchy, with theorems for instance/prefix in every branch, guard reset, nested rejection '
             'and arbitrary sequences of builds; correspondence with every invocation index as crash point x '
             'exception shapes, formatting failures, nested-build scripts.',
        note=TB + "Python's class machinery (proxy subclass creation) is abstracted as Errors.decorate.",
        technique='Lean 4 proof (decision logic + state machine) + differential correspondence + oracle',
        ref='§4 C05'),
    'C08': dict(
        text='Lean heap model of daglish traversals (follow_path, iterate in three modes, collect_paths_by_id, '
             'State.get_all_paths); correspondence of the (value, path) streams on random structures; oracle: '
             'soundness of every reported pair, completeness / exact-once against an independent walk, exactness '
             'of all-paths queries, identity rebuild (new and legacy API), caller-supplied registries, cycles.',
        note=TB + 'In the default memoized mode atoms are memoized by CPython identity; only memoizable objects '
             'are compared there. Theorems over the traversal model are still being added.',
        technique='Lean 4 model + differential correspondence + independent-walk oracle',
        ref='§4 C08'),
    'C06': dict(
        text='Lean model of Buildable.__eq__ over two heaps (Python == on values with defaults-aware children, '
             'then a lockstep walk maintaining a one-to-one object correspondence); correspondence of == in both '
             'directions on generated pairs; oracle: reflexive, symmetric, transitive, never raises, != is the '
             'negation, equality-preserving rewrites keep ==, equality-breaking rewrites are distinguished, and '
             'equal configurations build equal canonical object graphs.',
        note=TB + 'Leaves on which Python == identifies values of different types (1 / True / 1.0) are not generated.',
        technique='Lean 4 model + differential correspondence + metamorphic oracle (rewrites)',
        ref='§4 C06'),
    'C07': dict(
        text='Copies checked two ways: (A) a copy of one Buildable followed by an edit history must behave exactly '
             'like the ArgStore model run from the original constructor arguments while the original is unchanged; '
             '(B) on whole DAGs: canonical forms, identity intersection of every mutable part, edits of values, tags '
             'and containers on the copy, for deepcopy / pickle / deepcopy_with / copy / copy_with / cast.',
        note=TB + 'HistoryEntry objects are immutable and may be shared; history lists may not.',
        technique='Lean 4 model (ArgStore) + differential correspondence + identity-intersection oracle',
        ref='§4 C07'),
    'C14': dict(
        text='Tag sets are part of the ArgStore Lean model (add/remove/set/clear, TaggedValue expansion); '
             'correspondence after every op of generated histories plus a set-per-argument reference oracle; on '
             'DAGs: set_tagged and select(tag=).replace exactness and frame, list_tags, survival through copy / '
             'deepcopy / cast / JSON round trip / diff application, TaggedValue build.',
        note=TB,
        technique='Lean 4 model + differential correspondence + frame/exactness oracle',
        ref='§4 C14'),
    'C15': dict(
        text='select() decided on the real code against an independent graph walk: exact-once iteration under '
             'every match_subclasses / buildable_type setting over a class hierarchy, set (single and multiple '
             'keywords), replace (copying, non-copying, with a replacement equal to the matches), tag-selection '
             'iteration; Lean theorems concern the memoized walk model.',
        note=TB + 'No model correspondence yet for replace; the oracle is an independent implementation.',
        technique='Lean 4 model of the memoized walk + independent-walk oracle',
        ref='§4 C15'),
    'C17': dict(
        text='55 read-only / copy-returning entry points are run on generated configurations (six flavours incl. '
             'positional arguments, long values, callables that edit their arguments in place, argument-less tagged '
             'sub-configs); before/after snapshots of canonical form, tags and identities of every mutable part; '
             'returned copies are edited. Lean: frame theorems for traversals and copy-then-edit.',
        note=TB + 'Membership of each API in the two proved mechanisms is checked on generated inputs, not proved.',
        technique='Lean 4 frame theorems + before/after snapshot oracle over all entry points',
        ref='§4 C17'),
    'C20': dict(
        text='Seven transformations + auto_config.inline + convert_dataclasses_to_configs: canonical form of '
             'build(original) vs build(transformed) with callable values compared by full binding, == for '
             'materialize_defaults / with_defaults_trimmed, idempotence and totality of materialize_defaults '
             '(mirrored in the ArgStore Lean model), serializability preserved, input unchanged.',
        note=TB + 'One open finding (trim-mutable-default) in known_findings.json.',
        technique='Lean 4 model (materialize on ArgStore) + metamorphic build-equivalence oracle',
        ref='§4 C20'),
    'C09': dict(
        text='Lean theorems: the bytes codec round-trips every byte string; every symbol resolved while loading '
             'ANY document was approved by allows_import and allows_value, a denied reference raises. Both models '
             'are run against the real traverser / import_symbol on generated inputs; the oracle checks the full '
             'round trip (types, leaves, callables, tags, sharing), stability of the second dump, strict JSON, no '
             'invocation, policy consulted, tampered documents.',
        note=TB + 'json.dumps / json.loads are trusted (Doc = identity). One open finding (NaN / Infinity tokens).',
        technique='Lean 4 proof (codec round trip, policy gate) + differential correspondence + round-trip oracle',
        ref='§4 C09'),
    'C10': dict(
        text='Decided on the real code: for generated (old, new) pairs build_diff must succeed, apply to a copy of '
             'old, make it canonically equal to new (values, tags, sharing), leave diff and new untouched, share '
             'nothing with new, and be empty for a deep copy. The Lean side carries the table obligation on the '
             'operation order of _apply_changes.',
        note=TB + 'Alignment heuristics and apply_diff are not modelled in Lean yet (status table in DESIGN.md); two '
             'open findings (positional arguments, aligned tuples).',
        technique='Lean 4 table obligation + round-trip oracle on generated pairs',
        ref='§4 C10'),
    'C11': dict(
        text='Generated programs in the supported subset are written to temporary modules, decorated, and three '
             'results are compared by canonical form: the undecorated function, the decorated function called '
             'directly, fdl.build(fn.as_buildable(*args)); plus the invocation log during as_buildable and identity '
             'disjointness of two builds.',
        note=TB + 'The two-interpreter Lean model of DESIGN.md is not built yet; the check is oracle-based (Python '
             'semantics of the undecorated function is the reference).',
        technique='program generation + three-way differential oracle (Lean model pending)',
        ref='§4 C11'),
    'C12': dict(
        text='Each module emitted by new_codegen / auto_config_codegen (sub-fixture subsets, complexity thresholds, '
             'history) is imported as a real module, its fixture evaluated and compared with the input by canonical '
             'form; value -> expression conversion is evaluated and compared incl. type.',
        note=TB + 'The pass pipeline is not modelled; each emitted program is validated against its own input. Four '
             'open findings in known_findings.json.',
        technique='translation validation of every emitted program (Lean model of the generator pending)',
        ref='§4 C12', category='translation_validation'),
    'C13': dict(
        text='The fiddler emitted for every generated diff (four modes) is compiled, executed on a deep copy of old '
             'and compared with apply_diff by canonical form; hand-assembled diffs cover references among new '
             'shared values and into moved / replaced parts of old.',
        note=TB + 'One open finding (tags on value-less arguments of new values).',
        technique='translation validation of every emitted fiddler (Lean model pending)',
        ref='§4 C13', category='translation_validation'),
    'C18': dict(
        text='Lean model of the FiddleFlag directive queue with theorems: draining applies exactly the queued '
             'directives in order, split parse()/value sequences equal one parse of the concatenation, value = fold '
             'over the command line, first directive must be a base config. Correspondence of the application log '
             'on a real FiddleFlag; oracle for flattened printers (independent leaf enumeration, every printed path '
             'resolves, write-back sets exactly that leaf), config_str round trip, CallExpression.parse.',
        note=TB + 'The path grammar itself is tied by the oracle (print -> parse -> resolve), not proved.',
        technique='Lean 4 proof (queue fold law) + differential correspondence + print/parse/write-back oracle',
        ref='§4 C18'),
    'C19': dict(
        text='2-3 real threads under a deterministic sys.settrace scheduler switching at source lines inside '
             'fiddle/_src: systematic single pre-emption at every k-th line, triple windows, seeded random '
             'schedules; each thread must observe what it observes alone; sequence ids unique. Lean: table '
             'obligation that the build guard and tracking switch are threading.local.',
        note=TB + 'Sub-line atomicity is trusted. The schedule-quantified Lean theorem is listed in DESIGN.md status.',
        technique='deterministic schedule enumeration on the real code + Lean 4 table obligation',
        ref='§4 C19'),
}

NOT_YET = {}
for i in range(1, 21):
  pid = f'C{i:02d}'
  if pid not in CHECKS:
    NOT_YET[pid] = 'model and check not completed yet (work in progress; see DESIGN.md §7) - not claimed'

m = {
    'version': 1,
    'setup_cmd': 'cd lean && lake build',
    'hooks': {
        'guard': 'FIDDLE_VERIF',
        'enable': 'export FIDDLE_VERIF=1 (set by ./check; no source hooks exist, the guard is reserved)',
        'baseline_off_cmd': 'cd /repo && env -u FIDDLE_VERIF /venv/bin/python -m pytest -ra -q -p no:cacheprovider --timeout=900 --continue-on-collection-errors',
        'source_commits': [],
        'add_only': True,
    },
    'engines': [
        {'name': 'FiddleModel', 'path': 'lean/', 'serves_properties': sorted(CHECKS),
         'kind_free_text': 'Lean 4 model + theorems (lake library) and compiled JSON-lines driver'},
        {'name': 'harness', 'path': 'harness/', 'serves_properties': sorted(CHECKS),
         'kind_free_text': 'Python correspondence harness, generators, property oracles, tables translator'},
    ],
    'checks': [],
    'notes': 'See DESIGN.md. known_findings.json lists genuine defects (open -> KNOWN-FINDING lines, fixed -> regression corpus).',
    'not_applicable': [{'property_id': k, 'reason': v} for k, v in sorted(NOT_YET.items())],
}
for pid, c in sorted(CHECKS.items()):
  m['checks'].append({
      'property_id': pid,
      'quick_cmd': f'./check {pid} --tier quick',
      'thorough_cmd': f'./check {pid} --tier thorough',
      'evidence_file': f'evidence/{pid}.json',
      'replay_cmd_template': f'./check {pid} --replay {{path}}',
      'engine': 'FiddleModel',
      'level_claimed': {'category': c.get('category', 'proof'), 'text': c['text'], 'design_ref': c['ref']},
      'level_note': c['note'],
      'technique': c['technique'],
  })
json.dump(m, open(os.path.join(ROOT, 'MANIFEST.json'), 'w'), indent=1)
print('checks:', len(m['checks']), 'not_applicable:', len(m['not_applicable']))
