#!/bin/bash
# usage: tools/run_all.sh <tier> [seed]  -- runs every check, prints one line per property
cd "$(dirname "$0")/.."
tier=${1:-quick}; seed=${2:-0}
for p in C01 C02 C03 C04 C05 C06 C07 C08 C09 C10 C11 C12 C13 C14 C15 C16 C17 C18 C19 C20; do
  s=$(date +%s)
  out=$(VERIF_SEED=$seed ./check $p --tier $tier 2>&1); rc=$?
  e=$(date +%s)
  echo "$p tier=$tier seed=$seed rc=$rc t=$((e-s))s $(echo "$out" | grep -E '^(OK|VIOLATION|INFRA)' | tail -1)"
done
