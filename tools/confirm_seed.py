#!/venv/bin/python
"""tools/confirm_seed.py <seed name> <property> <needs...>: confirm a seeded change in a scratch
worktree (suite passes with it, demo fails with it and passes without) and write meta.json."""
import json, os, subprocess, sys, tempfile, xml.etree.ElementTree as ET

name, prop = sys.argv[1], sys.argv[2]
needs = ' '.join(sys.argv[3:])
root = os.path.dirname(os.path.dirname(os.path.abspath(__file__)))
d = os.path.join(root, 'seeded', name)
wt = tempfile.mkdtemp(prefix='confirm_', dir='/tmp')
os.rmdir(wt)
run = lambda *a, **k: subprocess.run(*a, stdout=subprocess.PIPE, stderr=subprocess.STDOUT, text=True, **k)
print(run(['git', '-C', '/repo', 'worktree', 'add', '-q', '--detach', wt, 'HEAD']).stdout)
env = dict(os.environ, PYTHONPATH=wt)
try:
  demo = os.path.join(d, 'demo.py')
  r0 = run(['/venv/bin/python', demo], cwd=wt, env=env)
  a = run(['git', 'apply', os.path.join(d, 'patch.diff')], cwd=wt)
  if a.returncode != 0:
    print('PATCH DOES NOT APPLY', a.stdout); sys.exit(3)
  r1 = run(['/venv/bin/python', demo], cwd=wt, env=env)
  xml = os.path.join(wt, '_r.xml')
  t = run(['/venv/bin/python', '-m', 'pytest', '-q', '-p', 'no:cacheprovider', '--timeout=900', '-n', '8',
           '--continue-on-collection-errors', '--junitxml=' + xml], cwd=wt, env=env)
  base = set(json.load(open('/root/.vp/BASELINE.json'))['stable_pass'])
  passed = set()
  for tc in ET.parse(xml).getroot().iter('testcase'):
    if not any(ch.tag in ('failure', 'error', 'skipped') for ch in tc):
      passed.add(f"{tc.get('classname')}::{tc.get('name')}")
  missing = sorted(base - passed)
  if missing:   # re-run the missing ones serially (one test is flaky under xdist)
    files = sorted({'/'.join(m.split('::')[0].split('.')[:-1]) + '.py' for m in missing})
    t2 = run(['/venv/bin/python', '-m', 'pytest', '-q', '-p', 'no:cacheprovider', '--junitxml=' + xml] + files, cwd=wt, env=env)
    for tc in ET.parse(xml).getroot().iter('testcase'):
      if not any(ch.tag in ('failure', 'error', 'skipped') for ch in tc):
        passed.add(f"{tc.get('classname')}::{tc.get('name')}")
    missing = sorted(base - passed)
  ok = (r0.returncode == 0 and r1.returncode != 0 and not missing)
  meta = {
      'breaks_property': prop,
      'needs_to_manifest': needs,
      'confirmed': ok,
      'what_i_ran': {
          'demo_without_patch_rc': r0.returncode, 'demo_with_patch_rc': r1.returncode,
          'demo_with_patch_tail': r1.stdout.strip().splitlines()[-3:],
          'suite_with_patch': t.stdout.strip().splitlines()[-1:],
          'stable_pass_missing_with_patch': missing,
          'base_commit': run(['git', '-C', '/repo', 'rev-parse', 'HEAD']).stdout.strip(),
      },
  }
  json.dump(meta, open(os.path.join(d, 'meta.json'), 'w'), indent=1)
  print(json.dumps(meta, indent=1))
finally:
  run(['git', '-C', '/repo', 'worktree', 'remove', '--force', wt])
