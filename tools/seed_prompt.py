#!/usr/bin/env python3
"""Print the prompt given to a seeding sub-agent for property <id> (property text only)."""
import json, sys
pid = sys.argv[1]
wt = sys.argv[2] if len(sys.argv) > 2 else f'/tmp/seed_{pid}'
round2 = len(sys.argv) > 3 and sys.argv[3] in ('round2', 'round3', 'round4', 'round5')
fresh = len(sys.argv) > 3 and sys.argv[3] == 'fresh'      # two changes, no list of known ones
N = 'TWO' if (round2 or fresh) else 'THREE'
nk = 2 if (round2 or fresh) else 3
known = ''
if round2:
  import glob, os
  titles = []
  for d in sorted(glob.glob(f'/verif/seeded/{pid}_*')):
    try:
      titles.append(open(os.path.join(d, 'notes.md')).readline().strip('# \n'))
    except OSError:
      pass
  known = ('\nChanges of the following kinds are ALREADY KNOWN - produce something in a different place and of a different mechanism, '
           'preferably in the less obvious of the relevant source files or in code those files call into:\n  - ' + '\n  - '.join(titles) + '\n')
for line in open('/verif/properties.jsonl'):
  p = json.loads(line)
  if p['id'] == pid:
    break
else:
  raise SystemExit('no such property')
print(f"""You are testing how robust a Python library's guarantees are against subtle regressions.

The library is google/fiddle (a Python configuration library for ML). You have your OWN scratch git worktree of it at {wt} (detached HEAD). Work ONLY inside {wt}. Never touch /repo or /verif, and do not read anything under /verif.

Run Python as:   cd {wt} && PYTHONPATH={wt} /venv/bin/python your_script.py
(so that `import fiddle` resolves to YOUR worktree; verify with `print(fiddle.__file__)`.)
Run the existing test suite as:   cd {wt} && PYTHONPATH={wt} /venv/bin/python -m pytest -q -p no:cacheprovider -n 8 --timeout=900 2>&1 | tail -15
(On the untouched tree exactly one test fails, `ir_to_cst_test.py::IrToCstTest::test_code_for_expr_jax_partition_spec`, and 1061 pass; one test in validation/no_custom_objects_test.py is occasionally flaky under -n 8. Those do not count.)
There is no network.

THE PROPERTY (id {p['id']}): {p['title']}

Statement: {p['statement']}

Quantified over: {p['quantifier']['text']}

Relevant source files: {', '.join(p['anchors']['files'])}

YOUR TASK: produce {N} different, independent source changes to the library (under {wt}/fiddle/, non-test files only), each of which
  (a) BREAKS the property above (some clause of it) for some input,
  (b) still imports/compiles, and the ENTIRE existing test suite still passes with it (same pass set as the untouched tree),
  (c) is REALISTIC: it should look like a plausible refactoring slip, optimisation, off-by-one, wrong condition, dropped special case, reordered statements, changed default, cache keyed wrongly, etc. - the kind of thing that gets through code review. No sabotage that is obviously deliberate, no `if x == 12345`, no randomness.
  (d) needs something SPECIFIC to manifest: an unusual input shape, a multi-step sequence of operations, a particular combination of options, two cooperating sites that each look fine alone, a crash at a particular point, etc. Ordinary everyday use (the simplest Config with a couple of keyword arguments) should still behave correctly; the breakage must NOT show up at once in trivial use.
{known}
The changes should be in DIFFERENT places / mechanisms and break the property in different ways (ideally different clauses of the statement).

For each change k in 1..{nk} deliver, in {wt}/_out/k/ :
  - patch.diff : `git diff` of ONLY that change against the untouched worktree HEAD (so it applies with `git apply` on a clean checkout). 
  - demo.py : a small standalone program that exits 0 and prints PASS on the untouched tree, and exits 1 and prints FAIL (with a short explanation of the observed vs expected behaviour) when the change is applied. It must demonstrate a violation of the property as stated, not just a behaviour difference.
  - notes.md : which clause of the property it breaks, what it needs in order to manifest, why the existing tests do not catch it.
Procedure for each change: edit, run the full suite, run demo.py (must FAIL), save `git diff > _out/k/patch.diff`, then `git checkout -- fiddle` to restore, run demo.py again (must PASS). Make sure the worktree's tracked files are restored to HEAD at the end (only _out/ remains as untracked files).

If a candidate change makes any existing test fail, discard it and find another. Do not modify or delete tests. Report at the end: for each k, a one-paragraph summary and the final confirmation (suite result with patch, demo result with and without patch).""")
