#!/bin/bash
# tools/import_round2.sh Cxx [prefix=seed2] [offset=3] : copy /tmp/<prefix>_Cxx/_out/{1,2} to seeded/Cxx_{offset+1,offset+2} and confirm them
cd "$(dirname "$0")/.."
p=$1
prefix=${2:-seed2}
off=${3:-3}
for k in 1 2; do
  n=$((k+off))
  src=/tmp/${prefix}_$p/_out/$k
  [ -f $src/patch.diff ] || { echo "$p $k: no patch"; continue; }
  d=seeded/${p}_$n
  mkdir -p $d
  cp $src/patch.diff $src/demo.py $d/
  cp $src/notes.md $d/ 2>/dev/null
  /venv/bin/python tools/confirm_seed.py ${p}_$n $p "see notes.md" 2>&1 | tail -3
done
