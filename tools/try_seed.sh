#!/bin/bash
# tools/try_seed.sh <seed dir name> <Cxx> [tier]  : apply patch to /repo, run the check, undo
set -u
cd "$(dirname "$0")/.."
d=seeded/$1
git -C /repo apply "$PWD/$d/patch.diff" || { echo "PATCH DOES NOT APPLY"; exit 3; }
./check "$2" --tier "${3:-quick}" 2>&1 | grep -v "WARNING conda" | tail -4
rc=${PIPESTATUS[0]}
git -C /repo checkout -- .
# the evidence file now describes a run against the patched tree: restore the committed one
git checkout -q -- "evidence/$2.json" 2>/dev/null
echo "seed=$1 prop=$2 rc=$rc"
