#!/venv/bin/python
"""Run /repo's pinned test suite and compare with /root/.vp/BASELINE.json stable_pass.

Usage: tools/baseline.py [-n WORKERS]   (exit 0 iff every stable_pass test passed)
"""
import json, os, subprocess, sys, tempfile, xml.etree.ElementTree as ET

def main():
  workers = '8'
  if '-n' in sys.argv:
    workers = sys.argv[sys.argv.index('-n') + 1]
  base = json.load(open('/root/.vp/BASELINE.json'))
  stable = set(base['stable_pass'])
  with tempfile.TemporaryDirectory() as td:
    xml = os.path.join(td, 'r.xml')
    cmd = ['/venv/bin/python', '-m', 'pytest', '-ra', '-q', '-p', 'no:cacheprovider',
           '--timeout=900', '--continue-on-collection-errors', '--junitxml=' + xml]
    if workers != '0':
      cmd += ['-n', workers]
    env = dict(os.environ)
    env.pop('FIDDLE_VERIF', None)
    p = subprocess.run(cmd, cwd='/repo', env=env, stdout=subprocess.PIPE, stderr=subprocess.STDOUT, text=True)
    tail = p.stdout.strip().splitlines()[-1:]
    passed = set()
    for tc in ET.parse(xml).getroot().iter('testcase'):
      ok = not any(ch.tag in ('failure', 'error', 'skipped') for ch in tc)
      if ok:
        passed.add(f"{tc.get('classname')}::{tc.get('name')}")
  missing = sorted(stable - passed)
  print('pytest:', *tail)
  print(f'stable_pass={len(stable)} passed_now={len(passed)} missing={len(missing)}')
  for m in missing[:40]:
    print('  NOT PASSING:', m)
  sys.exit(1 if missing else 0)

main()
